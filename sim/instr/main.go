// Command instr rewrites a scratch copy of participle so that the simulator owns every
// statement boundary, every map iteration order, every goroutine start and every critical
// section.  It edits the source text at byte offsets and never adds a newline, so every line
// number in the instrumented copy equals the line number in /repo (race reports, panics and the
// site table all speak in original lines).
//
// usage: instr -root <scratch> -mod <module path> -pkgs .,lexer,lexer/internal,ebnf[,...]
package main

import (
	"bytes"
	"encoding/json"
	"flag"
	"fmt"
	"go/ast"
	"go/importer"
	"go/parser"
	"go/token"
	"go/types"
	"os"
	"path/filepath"
	"sort"
	"strings"
)

type edit struct {
	off, end int // end == off: insertion; end > off: replacement of [off,end)
	text     string
	seq      int
}

type site struct {
	ID     int      `json:"id"`
	File   string   `json:"file"`
	Func   string   `json:"func"`
	Line   int      `json:"line"`
	Flags  int      `json:"flags"`
	Groups []string `json:"groups,omitempty"`
	groups []int
	fn     int
}

const (
	flagHotW = 1 << iota
	flagHotR
	flagUncontrolledMap
	flagSync
)

var (
	sites                                                                           []*site
	funcNames                                                                       []string
	funcIndex                                                                       = map[string]int{}
	groupNames                                                                      []string
	groupIndex                                                                      = map[types.Object]int{}
	mapRewrites, mapUncontrolled, goRewrites, goUncontrolled, lockSites, funcsInstr int
	uniq                                                                            int
	modPath                                                                         string
)

func funcID(name string) int {
	if i, ok := funcIndex[name]; ok {
		return i
	}
	funcIndex[name] = len(funcNames)
	funcNames = append(funcNames, name)
	return len(funcNames) - 1
}

func groupID(obj types.Object, name string) int {
	if i, ok := groupIndex[obj]; ok {
		return i
	}
	groupIndex[obj] = len(groupNames)
	groupNames = append(groupNames, name)
	return len(groupNames) - 1
}

type fileCtx struct {
	fset    *token.FileSet
	file    *ast.File
	src     []byte
	rel     string
	info    *types.Info
	pkg     *types.Package
	edits   []edit
	nextSeq int
	used    bool
}

func (c *fileCtx) off(p token.Pos) int { return c.fset.Position(p).Offset }

func (c *fileCtx) insert(p token.Pos, text string) {
	c.edits = append(c.edits, edit{off: c.off(p), end: c.off(p), text: text, seq: c.nextSeq})
	c.nextSeq++
	c.used = true
}

func (c *fileCtx) replace(from, to token.Pos, text string) {
	c.edits = append(c.edits, edit{off: c.off(from), end: c.off(to), text: text, seq: c.nextSeq})
	c.nextSeq++
	c.used = true
}

func (c *fileCtx) text(n ast.Node) string { return string(c.src[c.off(n.Pos()):c.off(n.End())]) }

func inModule(pkg *types.Package) bool {
	return pkg != nil && (pkg.Path() == modPath || strings.HasPrefix(pkg.Path(), modPath+"/"))
}

func isSyncPkg(pkg *types.Package) bool {
	return pkg != nil && (pkg.Path() == "sync" || pkg.Path() == "sync/atomic")
}

// baseObject returns the field or package-level variable an lvalue-ish expression is rooted at
// after stripping index, star, paren and slice expressions.
func (c *fileCtx) baseObject(e ast.Expr) (types.Object, string) {
	for {
		switch x := e.(type) {
		case *ast.ParenExpr:
			e = x.X
			continue
		case *ast.StarExpr:
			e = x.X
			continue
		case *ast.IndexExpr:
			e = x.X
			continue
		case *ast.SliceExpr:
			e = x.X
			continue
		case *ast.UnaryExpr:
			if x.Op == token.AND {
				e = x.X
				continue
			}
			return nil, ""
		case *ast.SelectorExpr:
			if sel, ok := c.info.Selections[x]; ok && sel.Kind() == types.FieldVal {
				return sel.Obj(), fieldName(sel)
			}
			if obj, ok := c.info.Uses[x.Sel].(*types.Var); ok && isPkgVar(obj) {
				return obj, obj.Pkg().Name() + "." + obj.Name()
			}
			return nil, ""
		case *ast.Ident:
			if obj, ok := c.info.Uses[x].(*types.Var); ok && isPkgVar(obj) && inModule(obj.Pkg()) {
				return obj, obj.Pkg().Name() + "." + obj.Name()
			}
			return nil, ""
		default:
			return nil, ""
		}
	}
}

func isPkgVar(v *types.Var) bool {
	return v != nil && !v.IsField() && v.Pkg() != nil && v.Parent() == v.Pkg().Scope()
}

func fieldName(sel *types.Selection) string {
	t := sel.Recv()
	if p, ok := t.(*types.Pointer); ok {
		t = p.Elem()
	}
	name := t.String()
	if n, ok := t.(*types.Named); ok {
		name = n.Obj().Name()
		if n.Obj().Pkg() != nil {
			name = n.Obj().Pkg().Name() + "." + name
		}
	}
	return name + "." + sel.Obj().Name()
}

type touch struct {
	groups map[int]bool
	w, r   bool
	sync   bool
}

func (t *touch) add(g int, write bool) {
	if t.groups == nil {
		t.groups = map[int]bool{}
	}
	t.groups[g] = true
	if write {
		t.w = true
	} else {
		t.r = true
	}
}

// scanExpr records reads of fields of module types and of module package-level variables, and
// treats method calls on sync / sync/atomic values, and address-taking, as writes.
func (c *fileCtx) scanExpr(n ast.Node, t *touch) {
	if n == nil {
		return
	}
	ast.Inspect(n, func(n ast.Node) bool {
		switch x := n.(type) {
		case *ast.FuncLit:
			return false
		case *ast.SelectorExpr:
			if sel, ok := c.info.Selections[x]; ok {
				switch sel.Kind() {
				case types.FieldVal:
					if inModule(sel.Obj().Pkg()) {
						t.add(groupID(sel.Obj(), fieldName(sel)), false)
					}
				case types.MethodVal:
					if f, ok := sel.Obj().(*types.Func); ok && isSyncPkg(f.Pkg()) {
						t.sync = true
						if obj, name := c.baseObject(x.X); obj != nil {
							t.add(groupID(obj, name), true)
						}
					}
				}
			} else if obj, ok := c.info.Uses[x.Sel].(*types.Var); ok && isPkgVar(obj) && inModule(obj.Pkg()) {
				t.add(groupID(obj, obj.Pkg().Name()+"."+obj.Name()), false)
			}
		case *ast.Ident:
			if obj, ok := c.info.Uses[x].(*types.Var); ok && isPkgVar(obj) && inModule(obj.Pkg()) {
				t.add(groupID(obj, obj.Pkg().Name()+"."+obj.Name()), false)
			}
		case *ast.UnaryExpr:
			if x.Op == token.AND {
				if obj, name := c.baseObject(x.X); obj != nil && inModule(obj.Pkg()) {
					t.add(groupID(obj, name), true)
				}
			}
		}
		return true
	})
}

func (c *fileCtx) scanWrite(e ast.Expr, t *touch) {
	if obj, name := c.baseObject(e); obj != nil && inModule(obj.Pkg()) {
		t.add(groupID(obj, name), true)
	}
}

// stmtTouch looks at the part of a statement that executes before control enters any nested
// block.
func (c *fileCtx) stmtTouch(s ast.Stmt) *touch {
	t := &touch{}
	switch x := s.(type) {
	case *ast.LabeledStmt:
		return c.stmtTouch(x.Stmt)
	case *ast.AssignStmt:
		for _, l := range x.Lhs {
			if x.Tok != token.DEFINE {
				c.scanWrite(l, t)
			}
			c.scanExpr(l, t)
		}
		for _, r := range x.Rhs {
			c.scanExpr(r, t)
		}
	case *ast.IncDecStmt:
		c.scanWrite(x.X, t)
		c.scanExpr(x.X, t)
	case *ast.ExprStmt:
		c.scanExpr(x.X, t)
	case *ast.ReturnStmt:
		for _, r := range x.Results {
			c.scanExpr(r, t)
		}
	case *ast.IfStmt:
		if x.Init != nil {
			it := c.stmtTouch(x.Init)
			for g := range it.groups {
				t.add(g, it.w)
			}
			t.sync = t.sync || it.sync
		}
		c.scanExpr(x.Cond, t)
	case *ast.ForStmt:
		if x.Init != nil {
			it := c.stmtTouch(x.Init)
			for g := range it.groups {
				t.add(g, it.w)
			}
			t.sync = t.sync || it.sync
		}
		c.scanExpr(x.Cond, t)
	case *ast.RangeStmt:
		c.scanExpr(x.X, t)
	case *ast.SwitchStmt:
		if x.Init != nil {
			it := c.stmtTouch(x.Init)
			for g := range it.groups {
				t.add(g, it.w)
			}
			t.sync = t.sync || it.sync
		}
		c.scanExpr(x.Tag, t)
	case *ast.TypeSwitchStmt:
		c.scanExpr(x.Assign, t)
	case *ast.DeferStmt:
		c.scanExpr(x.Call, t)
	case *ast.GoStmt:
		c.scanExpr(x.Call, t)
	case *ast.SendStmt:
		c.scanExpr(x.Chan, t)
		c.scanExpr(x.Value, t)
	case *ast.DeclStmt:
		c.scanExpr(x.Decl, t)
	}
	return t
}

func (c *fileCtx) newSite(fn string, s ast.Stmt) *site {
	t := c.stmtTouch(s)
	st := &site{ID: len(sites), File: c.rel, Func: fn, Line: c.fset.Position(s.Pos()).Line, fn: funcID(fn)}
	if t.w {
		st.Flags |= flagHotW
	}
	if t.r || t.w {
		st.Flags |= flagHotR
	}
	if t.sync {
		st.Flags |= flagSync
	}
	for g := range t.groups {
		st.groups = append(st.groups, g)
	}
	sort.Ints(st.groups)
	for _, g := range st.groups {
		st.Groups = append(st.Groups, groupNames[g])
	}
	sites = append(sites, st)
	return st
}

func pureExpr(e ast.Expr) bool {
	switch x := e.(type) {
	case *ast.Ident:
		return true
	case *ast.SelectorExpr:
		return pureExpr(x.X)
	case *ast.ParenExpr:
		return pureExpr(x.X)
	case *ast.StarExpr:
		return pureExpr(x.X)
	}
	return false
}

func orderedKey(t types.Type) bool {
	b, ok := t.Underlying().(*types.Basic)
	if !ok {
		return false
	}
	return b.Info()&(types.IsOrdered) != 0 && b.Info()&types.IsUntyped == 0 && b.Kind() != types.UnsafePointer
}

func isBlank(e ast.Expr) bool {
	id, ok := e.(*ast.Ident)
	return e == nil || (ok && id.Name == "_")
}

func (c *fileCtx) rewriteRange(r *ast.RangeStmt, labeled bool) {
	tv, ok := c.info.Types[r.X]
	if !ok {
		return
	}
	m, ok := tv.Type.Underlying().(*types.Map)
	if !ok {
		return
	}
	pure := pureExpr(r.X)
	if !orderedKey(m.Key()) || (labeled && !pure) {
		mapUncontrolled++
		c.insert(r.Pos(), "simrt.UncontrolledMapRange();")
		return
	}
	mapRewrites++
	uniq++
	n := uniq
	x := "(" + c.text(r.X) + ")"
	pre, post := "", ""
	if !pure {
		pre = fmt.Sprintf("{m__%d := %s;", n, c.text(r.X))
		x = fmt.Sprintf("m__%d", n)
		post = "}"
	}
	var hdr string
	switch {
	case isBlank(r.Key) && isBlank(r.Value):
		hdr = fmt.Sprintf("for range simrt.MapOrder(%s) {", x)
	case r.Tok == token.ASSIGN:
		hdr = fmt.Sprintf("for _, k__%d := range simrt.MapOrder(%s) { v__%d, ok__%d := %s[k__%d]; if !ok__%d { continue }; _ = v__%d;", n, x, n, n, x, n, n, n)
		if !isBlank(r.Key) {
			hdr += fmt.Sprintf("%s = k__%d;", c.text(r.Key), n)
		}
		if !isBlank(r.Value) {
			hdr += fmt.Sprintf("%s = v__%d;", c.text(r.Value), n)
		}
	default:
		k := fmt.Sprintf("k__%d", n)
		if !isBlank(r.Key) {
			k = c.text(r.Key)
		}
		if isBlank(r.Value) {
			hdr = fmt.Sprintf("for _, %s := range simrt.MapOrder(%s) { if _, ok__%d := %s[%s]; !ok__%d { continue };", k, x, n, x, k, n)
		} else {
			hdr = fmt.Sprintf("for _, %s := range simrt.MapOrder(%s) { %s, ok__%d := %s[%s]; if !ok__%d { continue };", k, x, c.text(r.Value), n, x, k, n)
		}
	}
	c.replace(r.For, r.Body.Lbrace+1, pre+hdr)
	if post != "" {
		c.insert(r.End(), post)
	}
}

func (c *fileCtx) syncMethod(call *ast.CallExpr) (string, bool) {
	sel, ok := call.Fun.(*ast.SelectorExpr)
	if !ok {
		return "", false
	}
	s, ok := c.info.Selections[sel]
	if !ok || s.Kind() != types.MethodVal {
		return "", false
	}
	f, ok := s.Obj().(*types.Func)
	if !ok || f.Pkg() == nil || f.Pkg().Path() != "sync" {
		return "", false
	}
	sig := f.Type().(*types.Signature)
	if sig.Recv() == nil {
		return "", false
	}
	rt := sig.Recv().Type()
	if p, ok := rt.(*types.Pointer); ok {
		rt = p.Elem()
	}
	n, ok := rt.(*types.Named)
	if !ok {
		return "", false
	}
	return n.Obj().Name() + "." + f.Name(), true
}

func (c *fileCtx) rewriteGo(g *ast.GoStmt) {
	call := g.Call
	if fl, ok := call.Fun.(*ast.FuncLit); ok && len(call.Args) == 0 {
		c.replace(g.Go, fl.Pos(), "simrt.Go(")
		c.replace(fl.End(), g.End(), ")")
		goRewrites++
		return
	}
	for _, a := range call.Args {
		if tv, ok := c.info.Types[a]; ok {
			if _, isTuple := tv.Type.(*types.Tuple); isTuple {
				goUncontrolled++
				return
			}
		}
	}
	uniq++
	n := uniq
	var b strings.Builder
	fmt.Fprintf(&b, "{f__%d := %s;", n, c.text(call.Fun))
	var args []string
	for i, a := range call.Args {
		fmt.Fprintf(&b, "a%d__%d := %s;", i, n, c.text(a))
		args = append(args, fmt.Sprintf("a%d__%d", i, n))
	}
	ell := ""
	if call.Ellipsis.IsValid() {
		ell = "..."
	}
	fmt.Fprintf(&b, "simrt.Go(func(){ f__%d(%s%s) })}", n, strings.Join(args, ","), ell)
	c.replace(g.Pos(), g.End(), b.String())
	goRewrites++
}

func (c *fileCtx) stmtList(fn string, list []ast.Stmt) {
	for _, s := range list {
		switch s.(type) {
		case *ast.CaseClause, *ast.CommClause:
			continue
		}
		st := c.newSite(fn, s)
		c.insert(s.Pos(), fmt.Sprintf("simrt.Yield(%d);", st.ID))
		inner := s
		labeled := false
		if l, ok := s.(*ast.LabeledStmt); ok {
			inner = l.Stmt
			labeled = true
		}
		switch x := inner.(type) {
		case *ast.ExprStmt:
			if call, ok := x.X.(*ast.CallExpr); ok {
				if m, ok := c.syncMethod(call); ok {
					switch m {
					case "Mutex.Lock", "RWMutex.Lock", "RWMutex.RLock":
						lockSites++
						// In simulation a blocked Lock can never be released by anybody else (tasks are
						// never switched out while they hold a lock), so it is tried instead and a failure
						// is reported as a deadlock.
						sel := call.Fun.(*ast.SelectorExpr)
						try := map[string]string{"Mutex.Lock": "TryLock", "RWMutex.Lock": "TryLock", "RWMutex.RLock": "TryRLock"}[m]
						recv := c.text(sel.X)
						loc := fmt.Sprintf("%s:%d", c.rel, c.fset.Position(inner.Pos()).Line)
						c.replace(inner.Pos(), inner.End(), fmt.Sprintf("simrt.MutexLock(%s.%s, %s.%s, %q)", recv, sel.Sel.Name, recv, try, loc))
					case "Mutex.Unlock", "RWMutex.Unlock", "RWMutex.RUnlock":
						c.insert(inner.End(), ";simrt.LockDepth(-1)")
					case "Once.Do":
						lockSites++
						c.insert(inner.Pos(), "simrt.LockDepth(1);")
						c.insert(inner.End(), ";simrt.LockDepth(-1)")
					}
				}
			}
		case *ast.DeferStmt:
			if m, ok := c.syncMethod(x.Call); ok {
				switch m {
				case "Mutex.Unlock", "RWMutex.Unlock", "RWMutex.RUnlock":
					c.insert(x.Call.Pos(), "func(){")
					c.insert(x.End(), ";simrt.LockDepth(-1)}()")
				}
			}
		case *ast.GoStmt:
			c.rewriteGo(x)
		case *ast.RangeStmt:
			c.rewriteRange(x, labeled)
		}
		st.Flags |= 0
	}
}

func (c *fileCtx) walk() {
	var fnStack []string
	var visit func(n ast.Node) bool
	visit = func(n ast.Node) bool {
		switch x := n.(type) {
		case *ast.FuncDecl:
			if x.Body == nil {
				return false
			}
			name := c.pkg.Name() + "." + x.Name.Name
			if x.Recv != nil && len(x.Recv.List) > 0 {
				rt := c.text(x.Recv.List[0].Type)
				rt = strings.TrimPrefix(rt, "*")
				if i := strings.Index(rt, "["); i >= 0 {
					rt = rt[:i]
				}
				name = c.pkg.Name() + "." + rt + "." + x.Name.Name
			}
			fnStack = append(fnStack, name)
			funcsInstr++
			c.insert(x.Body.Lbrace+1, "simrt.Enter();defer simrt.Exit();")
			ast.Inspect(x.Body, visit)
			fnStack = fnStack[:len(fnStack)-1]
			return false
		case *ast.FuncLit:
			name := "pkginit"
			if len(fnStack) > 0 {
				name = fnStack[len(fnStack)-1]
			} else {
				name = c.pkg.Name() + ".init"
			}
			fnStack = append(fnStack, name+".func")
			funcsInstr++
			c.insert(x.Body.Lbrace+1, "simrt.Enter();defer simrt.Exit();")
			ast.Inspect(x.Body, visit)
			fnStack = fnStack[:len(fnStack)-1]
			return false
		case *ast.BlockStmt:
			fn := c.pkg.Name() + ".init"
			if len(fnStack) > 0 {
				fn = fnStack[len(fnStack)-1]
			}
			c.stmtList(fn, x.List)
		case *ast.CaseClause:
			fn := fnStack[len(fnStack)-1]
			c.stmtList(fn, x.Body)
		case *ast.CommClause:
			fn := fnStack[len(fnStack)-1]
			c.stmtList(fn, x.Body)
		}
		return true
	}
	ast.Inspect(c.file, visit)
}

func (c *fileCtx) apply() []byte {
	if !c.used {
		return c.src
	}
	// import on the package clause line
	c.edits = append(c.edits, edit{off: c.off(c.file.Name.End()), end: c.off(c.file.Name.End()),
		text: fmt.Sprintf(";import simrt %q", modPath+"/simrt"), seq: -1})
	sort.SliceStable(c.edits, func(i, j int) bool {
		if c.edits[i].off != c.edits[j].off {
			return c.edits[i].off < c.edits[j].off
		}
		// insertions at an offset come before a replacement starting there
		ii, jj := c.edits[i].end == c.edits[i].off, c.edits[j].end == c.edits[j].off
		if ii != jj {
			return ii
		}
		return c.edits[i].seq < c.edits[j].seq
	})
	var out bytes.Buffer
	pos := 0
	for _, e := range c.edits {
		if e.off < pos {
			fmt.Fprintf(os.Stderr, "instr: overlapping edit in %s at %d (%q)\n", c.rel, e.off, e.text)
			os.Exit(3)
		}
		out.Write(c.src[pos:e.off])
		out.WriteString(e.text)
		pos = e.end
	}
	out.Write(c.src[pos:])
	return out.Bytes()
}

func main() {
	root := flag.String("root", "", "scratch copy of the repository")
	mod := flag.String("mod", "github.com/alecthomas/participle/v2", "module path")
	pkgs := flag.String("pkgs", ".,lexer,lexer/internal,ebnf", "comma separated package directories")
	flag.Parse()
	modPath = *mod
	if err := os.Chdir(*root); err != nil {
		fatal(err)
	}
	fset := token.NewFileSet()
	imp := importer.ForCompiler(fset, "source", nil)
	var ctxs []*fileCtx
	for _, dir := range strings.Split(*pkgs, ",") {
		entries, err := os.ReadDir(filepath.Join(*root, dir))
		if err != nil {
			fatal(err)
		}
		var files []*ast.File
		var fcs []*fileCtx
		for _, e := range entries {
			name := e.Name()
			if e.IsDir() || !strings.HasSuffix(name, ".go") || strings.HasSuffix(name, "_test.go") {
				continue
			}
			p := filepath.Join(*root, dir, name)
			src, err := os.ReadFile(p)
			if err != nil {
				fatal(err)
			}
			f, err := parser.ParseFile(fset, p, src, parser.ParseComments)
			if err != nil {
				fatal(err)
			}
			files = append(files, f)
			fcs = append(fcs, &fileCtx{fset: fset, file: f, src: src, rel: filepath.ToSlash(filepath.Join(dir, name))})
		}
		if len(files) == 0 {
			continue
		}
		info := &types.Info{
			Types:      map[ast.Expr]types.TypeAndValue{},
			Uses:       map[*ast.Ident]types.Object{},
			Defs:       map[*ast.Ident]types.Object{},
			Selections: map[*ast.SelectorExpr]*types.Selection{},
		}
		ipath := modPath
		if dir != "." {
			ipath = modPath + "/" + filepath.ToSlash(dir)
		}
		conf := types.Config{Importer: imp, Error: func(err error) { fmt.Fprintln(os.Stderr, "instr: type error:", err) }}
		pkg, err := conf.Check(ipath, fset, files, info)
		if err != nil {
			fatal(fmt.Errorf("type-checking %s: %w", ipath, err))
		}
		for _, fc := range fcs {
			fc.info = info
			fc.pkg = pkg
			ctxs = append(ctxs, fc)
		}
	}
	for _, c := range ctxs {
		c.walk()
	}
	for _, c := range ctxs {
		out := c.apply()
		if err := os.WriteFile(filepath.Join(*root, c.rel), out, 0o644); err != nil {
			fatal(err)
		}
	}
	// site tables for the runtime
	var b bytes.Buffer
	b.WriteString("// Code generated by verif instr. DO NOT EDIT.\npackage simrt\n\n")
	b.WriteString("const (\n\tFlagHotW = 1 << iota\n\tFlagHotR\n\tFlagUncontrolledMap\n\tFlagSync\n)\n\n")
	b.WriteString("var Instrumented = true\n\nvar SiteFlags = []uint8{")
	for i, s := range sites {
		if i%32 == 0 {
			b.WriteString("\n\t")
		}
		fmt.Fprintf(&b, "%d,", s.Flags)
	}
	b.WriteString("\n}\n\nvar SiteFunc = []int32{")
	for i, s := range sites {
		if i%32 == 0 {
			b.WriteString("\n\t")
		}
		fmt.Fprintf(&b, "%d,", s.fn)
	}
	b.WriteString("\n}\n\nvar SiteGroups = [][]int32{\n")
	for _, s := range sites {
		if len(s.groups) == 0 {
			b.WriteString("\tnil,\n")
			continue
		}
		b.WriteString("\t{")
		for _, g := range s.groups {
			fmt.Fprintf(&b, "%d,", g)
		}
		b.WriteString("},\n")
	}
	b.WriteString("}\n\nvar SiteLine = []int32{")
	fileIdx := map[string]int{}
	var fileNames []string
	for i, s := range sites {
		if i%32 == 0 {
			b.WriteString("\n\t")
		}
		fmt.Fprintf(&b, "%d,", s.Line)
		if _, ok := fileIdx[s.File]; !ok {
			fileIdx[s.File] = len(fileNames)
			fileNames = append(fileNames, s.File)
		}
	}
	b.WriteString("\n}\n\nvar SiteFile = []int16{")
	for i, s := range sites {
		if i%32 == 0 {
			b.WriteString("\n\t")
		}
		fmt.Fprintf(&b, "%d,", fileIdx[s.File])
	}
	b.WriteString("\n}\n\nvar FileNames = []string{\n")
	for _, f := range fileNames {
		fmt.Fprintf(&b, "\t%q,\n", f)
	}
	b.WriteString("}\n\nvar FuncNames = []string{\n")
	for _, f := range funcNames {
		fmt.Fprintf(&b, "\t%q,\n", f)
	}
	b.WriteString("}\n")
	if err := os.WriteFile(filepath.Join(*root, "simrt", "sites_gen.go"), b.Bytes(), 0o644); err != nil {
		fatal(err)
	}
	hotW, hotR := 0, 0
	for _, s := range sites {
		if s.Flags&flagHotW != 0 {
			hotW++
		}
		if s.Flags&flagHotR != 0 {
			hotR++
		}
	}
	table := map[string]interface{}{
		"sites": sites, "funcs": funcNames, "groups": groupNames,
		"summary": map[string]int{"sites": len(sites), "functions": funcsInstr, "hot_write_sites": hotW, "hot_sites": hotR,
			"map_ranges_controlled": mapRewrites, "map_ranges_uncontrolled": mapUncontrolled,
			"go_statements_controlled": goRewrites, "go_statements_uncontrolled": goUncontrolled, "lock_sites": lockSites},
	}
	js, _ := json.Marshal(table)
	if err := os.WriteFile(filepath.Join(*root, "sites.json"), js, 0o644); err != nil {
		fatal(err)
	}
	sum, _ := json.Marshal(table["summary"])
	fmt.Println(string(sum))
}

func fatal(err error) {
	fmt.Fprintln(os.Stderr, "instr:", err)
	os.Exit(2)
}
