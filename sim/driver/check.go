package main

import (
	"encoding/json"
	"fmt"
	"os"
	"path/filepath"
	"sort"
	"strconv"
	"strings"
	"sync"
	"time"
)

func init() {
	common := []string{
		"the Go toolchain, runtime and standard library behave as documented (regexp, text/scanner, reflect, the race detector)",
		"the instrumenter's source edits (a call before each statement, Enter/Exit per function, sorted-then-permuted map ranges) do not change participle's behaviour; checked by running the repository's own tests in the instrumented copy during development and by the neutrality digest",
		"the fixture grammars, rule maps and corpus documents under /verif/sim are representative; nothing is claimed about grammars or definitions outside them",
		"a clean batch is evidence from sampled schedules / histories / fault plans, not a proof",
	}
	props["C12"] = &propCfg{id: "C12", quickSeconds: 20, thoroughSecs: 600, level: "exploration", selfSeeds: 400, confirmRuns: 3, minBudget: 300,
		rule:          "each run draws from the tape a token stream (0-24 tokens, thorough tier 0-40, over the type alphabet {-3,-2,0,7} and 3 values; one stream in 32 additionally contains a run of 127-513 consecutive elided tokens), an elision set (any subset of the types, sometimes EOF's own type, 1/4 of runs everything, sometimes a duplicate entry), optionally a source-lexer failure, then up to 60 (thorough 150) steps, each choosing one of up to 4 live by-value copies of the PeekingLexer and one of Peek/Next/RawPeek/PeekAny(7 predicates)/FastForward (to the latest or to any earlier returned cursor, also one behind the current position)/Range/Cursor/MakeCheckpoint (contents checked)/LoadCheckpoint(any earlier checkpoint of any copy)/Fork/Drop; after every step every observable of every live copy is compared with the model ON A BY-VALUE COPY, so that looking never changes the state under test. distinct = hash of (per-token elided flags, EOF-type-elided flag, operation-kind sequence); non-trivial = the history contains a checkpoint restore after at least one consuming step AND a FastForward across at least one elided token",
		assumptions:   append([]string{"the model (a pure function of token array, elision set and raw cursor) is the meaning of the property's sentences; it shares no code with lexer/peek.go"}, common...),
		requireFaults: []string{"source-lexer-error"}}
	props["C15"] = &propCfg{id: "C15", needGen: true, quickSeconds: 30, thoroughSecs: 900, level: "exploration", selfSeeds: 400, confirmRuns: 3, minBudget: 300,
		rule:          "each run draws one of 54 grammars (16 hand-written worlds, 18 ported from the repository's parser tests, 20 ported from _examples; 1 run in 24 a grammar the library considers buggy, on which all entry points must panic alike), a build variant (lookahead 1/2/MaxLookahead/-1/default, definition narrowed to hide LexString/LexBytes, extra Map mapper, generated lexer), a corpus document (valid and invalid specimens, flat units repeated, nested specimens, multi-byte text), in the faults sub-batch a content-fault plan so that errors are compared too, and reader delivery schedules (whole / bytewise / random chunks / split inside a rune / split inside a token / two halves, with (0,nil) stutters and data-with-EOF); it then checks: Parse(reader) = ParseBytes = ParseFromLexer(Upgrade(own lexer)) = ParseString (AST by DeepEqual, error by type, text, message, position); Parse(\"\", named reader) = ParseString(reader name); Parser.Lex = ConsumeAll(Lexer().Lex) and root Tokens is a prefix of it whose remainder is elided tokens and EOF; Trace over a SimWriter (ok / error after k bytes / short writes) changes nothing; AllowTrailing leaves the caller's lexer on the first junk token; a one-statement grammar applied repeatedly to one lexer yields what separate ParseString calls yield; standard-library readers handed in after the caller consumed a prefix (strings.Reader, bytes.Reader, bytes.Buffer, bufio.Reader, SectionReader, LimitReader) give the pivot result; the pivot result is unchanged after a different document was parsed; under a failing reader the result is an error or exactly the result for the delivered prefix, and a following call over the whole input gives the pivot result. 1 run in 5 instead compares Lex / LexString / LexBytes of a raw definition (all lexer definitions of the simulated world, runtime and generated). distinct = hash of (world, build variant, first reader's schedule shape, outcome class, document, fired content faults, delivered bytes); non-trivial = the first reader delivered in at least 2 reads and at least one read boundary fell strictly inside a token",
		assumptions:   append([]string{"decided for the parsers and definitions of the simulated world", "ParseFromLexer on a stream whose lexing failed is represented by the lexing error itself (Upgrade fails before a PeekingLexer exists)"}, common...),
		requireFaults: []string{"chunk", "stutter", "eof-with-data", "named", "trace-write-error", "trace-short-write", "read-error", "early-eof", "corrupt", "bom"}}
	props["C06"] = &propCfg{id: "C06", needGen: true, quickSeconds: 30, thoroughSecs: 900, level: "exploration", selfSeeds: 400, confirmRuns: 3, minBudget: 300,
		rule:          "each run draws one of 54 grammars (16 hand-written worlds: ini, expr, heredoc, basic, conformance, callbacks, durations (Parseable root), misc, tuple, lines, dashed, tokcap, notes, anon, defs, shapes; 18 ported from the repository's parser tests; 20 ported from _examples), a build variant (lookahead default/1/2/MaxLookahead/-1, narrowed definition, extra mapper, generated lexer; map orders inside Build permuted), a corpus document (valid / invalid / flat unit repeated up to 40, thorough 400, times / nested specimen up to 12 or 60-400 levels / multi-byte / empty), in the faults sub-batch a content-fault plan (early EOF, corruption incl. NUL and invalid UTF-8, chunk drop / dup / reorder, re-encoding) and, in the callback worlds, a plan making the j-th callback invocation return ok / NextMatch / a foreign error / a located error; sometimes MaxIterations is set to 3 / 9 / 40; the delivered bytes D go through ParseString, ParseBytes and Parse over a SimReader (delivery schedule, optional read error). Clauses on D: returns within 10^5+10^4*(len(D)+1) logical steps without panic; (AST, nil) or error; lexing failure (Parser.Lex(D) fails) gives a nil AST and that very error, parse failure a non-nil AST; unless a foreign error was injected the error implements participle.Error, its Position / Message / Error do not panic, it carries the supplied filename, 0<=Offset<=len(D), Line/Column recomputed from D and Offset, Error() = [file:]line:col: Message(), and an UnexpectedTokenError names a token Parser.Lex(D) has at that offset. 1 run in 8 measures logical recursion depth instead: a flat unit repeated n and 2n times (n in 8/32/128/512, thorough 2048) must grow the depth by less than n/2 frames; nested specimens of depth d and 2d (d in 4/16/64/150) at most 4x linearly. distinct = hash of (world, variant, fired faults, outcome class, error type, error location class, delivered bytes, callback plan); non-trivial = a fault fired or the document is an invalid specimen or a callback plan was active, and the outcome is not decided at the first token",
		assumptions:   append([]string{"decided for the grammars of the simulated world only, not for the universal quantifier over grammars", "logical step cap and logical depth (instrumented function entries) stand in for termination and stack use; Go cannot recover from real stack exhaustion"}, common...),
		requireFaults: []string{"early-eof", "corrupt", "drop", "dup", "reorder", "bom", "crlf", "chunk", "stutter", "eof-with-data", "read-error", "callback-outcome-plan", "dup-flat-unit"}}
	props["C09"] = &propCfg{id: "C09", race: true, needGen: true, quickSeconds: 45, thoroughSecs: 1500, level: "exploration", selfSeeds: 80, confirmRuns: 5, minBudget: 120,
		rule:          "each run builds shared objects before any task exists (1-2 parsers from the 54 grammars (sometimes one the library considers buggy) in a drawn build variant, biased to the heredoc world whose definition caches compiled back-reference patterns; 0-2 raw lexer definitions, runtime or generated; optionally the package-level ebnf parser), with map iteration orders inside construction permuted from the tape; optionally runs a sequential prefix of 0-10 (thorough 0-30) operations on them, sometimes preceded by a long history of 150-310 lexing calls with pairwise distinct back-reference keys; then 2-6 (thorough 2-8) tasks (real goroutines released one at a time by the tape-driven scheduler, hand-offs hidden from the race detector) perform 1-6 (thorough 1-8) operations each out of ParseString / ParseBytes / Parse(SimReader) / ParseFromLexer / Parser.Lex / Parser.String / ParserForProduction / Definition.Lex, LexString, LexBytes + ConsumeAll / Symbols / Rules / json.Marshal(definition) / SymbolsByRune / ebnf.ParseString / ebnf.Parse / a parse with Trace / MakeSymbolTable / Parse or Lex over a reader that fails part-way (may fail, may never return something else) / post an error to another task / render errors other tasks produced, over corpus documents (heredoc delimiters from a per-run alphabet so tasks collide on cache keys and every run starts cold) and, in half the runs, fault-derived variants; scheduling strategy per run: sequential (switch at operation boundaries and reads only), random walk over statement-level yields, park-at-hot-site (park before a statement that may write shared state, resume right after a peer touched the same field or variable), PCT (depth 1-3); finally every distinct operation is repeated sequentially (read-back). Oracle O-iso: every result of all three phases equals the result of the same call on an instance constructed fresh for that one call after the run (generated definitions, which have no constructor: the first result seen in the process). Oracle O-race: the Go race detector over the whole run. distinct = hash of (context-switch sequence [(from, to, site)], operation multiset); non-trivial = at least one context switch at a statement-level yield (not an operation boundary or endpoint call)",
		assumptions:   append([]string{"the race detector reports only real unsynchronised conflicting accesses (no false positives); its misses (shadow-cell eviction, incidental happens-before through process-global standard-library pools) are mitigated by adjacency scheduling but not eliminated", "critical sections under sync.Mutex / sync.Once in the code under test run atomically in simulation", "blocking primitives other than those are not modelled (watchdog -> exit 2)"}, common...),
		requireFaults: []string{"chunk", "read-error"}}
	props["C07"] = &propCfg{id: "C07", needGen: true, quickSeconds: 30, thoroughSecs: 900, level: "exploration", selfSeeds: 400, confirmRuns: 3, minBudget: 300,
		rule:          "each run picks one of 41 lexer definitions (runtime stateful: heredoc with back-reference, conformance, interpolated strings, Pop / Return reachable at root, invalid / convoluted back-references, optional group in an action rule, rules matching the empty string, nested Includes, a rule named EOF, 'units' covering the generator's regex operators; NewSimple ini; text/scanner; pointer-valued actions, a rule that both refers back and pushes, back-reference rules arriving through Include; the twelve lexers of the _examples grammars; the checked-in generated lexer) or one of twelve to fifteen twins generated at check time by the working tree's generator, builds it with map iteration orders permuted from the tape, and then runs a history: lexers are opened at drawn moments (up to 4, thorough 7; also after another lexer was called past EOF) over corpus documents with a content-fault plan (early EOF / corrupt / drop / dup / reorder / re-encode: BOM, CR LF, Latin-1, NUL padding; none in the fault-free sub-batch) through Lex over a SimReader (delivery schedule, optional read error), LexString or LexBytes, their Next calls are alternated, and 0-5 further Next calls follow EOF or an error; 1 run in 40 on a caching definition is a long history instead (100-600, thorough up to 1600, short inputs with pairwise distinct captured texts on ONE definition). Clauses: no panic, each Next within 10^4+10^2*len(D) logical steps, non-empty non-EOF tokens, at most len(D) tokens, EOF repeats at the identical position. distinct = hash of (definition, entry points, terminal event and post-terminal call count per lexer, fired fault kinds, delivered bytes); non-trivial = at least one token was emitted and (a fault fired or the run ended in a lexer error or several lexers were alternated)",
		assumptions:   append([]string{"decided for the definitions of the simulated world only, not for the universal quantifier over rule maps", "logical step cap per Next call (10^4 + 10^2*len(D) statement-level yields) stands in for termination; the observed maximum is reported next to the cap"}, common...),
		requireFaults: []string{"early-eof", "corrupt", "drop", "dup", "reorder", "bom", "crlf", "chunk", "stutter", "eof-with-data", "read-error"}}
}

type evidence struct {
	PropertyID  string                 `json:"property_id"`
	Tier        string                 `json:"tier"`
	Seed        int64                  `json:"seed"`
	Level       string                 `json:"level"`
	Coverage    map[string]interface{} `json:"coverage"`
	Assumptions []string               `json:"assumptions"`
	WallS       float64                `json:"wall_s"`
	Violations  int                    `json:"violations"`
}

func writeEvidence(pc *propCfg, ev *evidence) {
	dir := envOr("VERIF_EVIDENCE_DIR", filepath.Join(verifHome, "evidence"))
	os.MkdirAll(dir, 0o755)
	b, _ := json.MarshalIndent(ev, "", " ")
	tmp := filepath.Join(dir, pc.id+".json.tmp")
	if err := os.WriteFile(tmp, b, 0o644); err != nil {
		trouble("writing evidence: %v", err)
	}
	os.Rename(tmp, filepath.Join(dir, pc.id+".json"))
}

func sortedKeys(m map[string]int64) []string {
	var ks []string
	for k := range m {
		ks = append(ks, k)
	}
	sort.Strings(ks)
	return ks
}

func subBatches(pc *propCfg) []string {
	switch pc.id {
	case "C06", "C07", "C15":
		return []string{"faultfree", "faults"}
	}
	return []string{""}
}

func checkCmd(id, tier string) int {
	pc := props[id]
	if pc == nil {
		fmt.Fprintf(os.Stderr, "simcheck: unknown property %q\n", id)
		return 2
	}
	if tier != "quick" && tier != "thorough" {
		fmt.Fprintf(os.Stderr, "simcheck: unknown tier %q\n", tier)
		return 2
	}
	start := time.Now()
	seed := seedFromEnv()
	fmt.Printf("simcheck: property=%s tier=%s VERIF_SEED=%d\n", id, tier, seed)
	bi := prepare(pc)
	defer cleanup()
	fmt.Printf("simcheck: built simulation binary from %s in %.1fs (instrumented=%v race=%v sites=%d)\n", repoDir, bi.buildSeconds, !bi.degraded, pc.race, bi.instrSummary["sites"])

	seconds := pc.quickSeconds
	if tier == "thorough" {
		seconds = pc.thoroughSecs
	}
	if v, err := strconv.ParseFloat(os.Getenv("VERIF_SECONDS"), 64); err == nil && v > 0 {
		seconds = v
	}
	ff := loadFindings()
	knownFile := ""
	var knownList []finding
	for _, f := range ff.Findings {
		if f.Property == id && f.Status == "known" {
			knownList = append(knownList, f)
		}
	}
	if len(knownList) > 0 {
		knownFile = filepath.Join(scratch, "known.json")
		b, _ := json.Marshal(knownList)
		os.WriteFile(knownFile, b, 0o644)
	}

	W := numWorkers()
	subs := subBatches(pc)
	m := newMerged()
	batchStart := time.Now()
	var mu sync.Mutex
	var wg sync.WaitGroup
	var firstErr error
	for w := 0; w < W; w++ {
		wg.Add(1)
		go func(w int) {
			defer wg.Done()
			sub := subs[w%len(subs)]
			spec := workerSpec{tier: tier, from: int64(w), stride: int64(W), seconds: seconds, sub: sub, samples: 3, maxViol: 3}
			a, err := runWorker(bi, pc, seed, w, spec, knownFile)
			mu.Lock()
			defer mu.Unlock()
			if err != nil {
				if firstErr == nil {
					firstErr = err
				}
				return
			}
			m.add(a)
		}(w)
	}
	wg.Wait()
	batchSeconds := time.Since(batchStart).Seconds()
	if firstErr != nil {
		trouble("%v", firstErr)
	}
	if m.Stalled {
		trouble("a task stalled in a primitive the simulator does not model (real-time watchdog)")
	}

	// determinism self-check: the same run indices in two further processes at other GOMAXPROCS
	selfN := pc.selfSeeds
	if tier == "quick" {
		selfN = pc.selfSeeds / 4
	}
	selfMismatch := 0
	var selfDigests []uint64
	if len(m.Violations) == 0 && selfN > 0 {
		for _, gmp := range []int{1, 4, 16} {
			a, err := runWorker(bi, pc, seed, 100+gmp, workerSpec{tier: tier, from: 0, stride: 1, count: selfN, gomaxprocs: gmp, sub: subs[len(subs)-1], samples: 0, maxViol: 1}, knownFile)
			if err != nil {
				trouble("determinism self-check: %v", err)
			}
			selfDigests = append(selfDigests, a.Digest)
		}
		for _, d := range selfDigests[1:] {
			if d != selfDigests[0] {
				selfMismatch++
			}
		}
		if selfMismatch > 0 {
			trouble("determinism self-check failed: the same %d run seeds produced different event digests in different processes (%v)", selfN, selfDigests)
		}
	}

	// violations: group by signature, minimise, confirm
	exit := 0
	type confirmed struct {
		rf   *replayFile
		path string
	}
	var reported []confirmed
	var nonReplaying []string
	sigSeen := map[string]bool{}
	sort.Slice(m.Violations, func(i, j int) bool { return len(m.Violations[i].Tape) < len(m.Violations[j].Tape) })
	for _, v := range m.Violations {
		if sigSeen[v.Signature] || len(reported) >= 3 {
			continue
		}
		sigSeen[v.Signature] = true
		rf := &replayFile{Property: id, Tier: tier, Seed: v.Seed, RunIndex: v.RunIndex, Tape: v.Tape, Signature: v.Signature,
			Detail: v.Detail, Input: v.Input, SiteHash: bi.siteHash, RepoHash: bi.repoHash}
		rf.Sub = v.Sub
		fmt.Printf("simcheck: run %d (seed %d) violated %s: %s\n", v.RunIndex, v.Seed, v.Signature, clip(v.Detail, 600))
		budget := pc.minBudget
		if pc.race {
			budget = 120
		}
		if strings.HasPrefix(rf.Signature, "race/") {
			if w, tried := raceWitness(bi, pc, rf); w != nil {
				fmt.Printf("simcheck: built a directed witness schedule for the race report after %d attempts: park before %s, resume after a peer executed %s (arrival %d)\n", tried, w.Target.Park, w.Target.Peer, w.Target.Nth)
				rf = w
			} else {
				fmt.Printf("simcheck: no directed witness found in %d attempts; falling back to replaying the recorded schedule\n", tried)
			}
		}
		min, used := minimise(bi, pc, rf, budget)
		fmt.Printf("simcheck: minimised tape %d -> %d entries with %d candidate executions\n", len(v.Tape), len(min.Tape), used)
		okCount := 0
		for i := 0; i < pc.confirmRuns; i++ {
			rr, err := execReplay(bi, pc, min, false)
			if err == nil && rr.Violated && rr.Signature == min.Signature {
				okCount++
			}
		}
		if okCount == 0 || (!pc.race && okCount < pc.confirmRuns) {
			os.MkdirAll(replayDir(), 0o755)
			p := filepath.Join(replayDir(), fmt.Sprintf("%s-nonreplaying-%d.json", id, v.Seed))
			b, _ := json.MarshalIndent(rf, "", " ")
			os.WriteFile(p, b, 0o644)
			nonReplaying = append(nonReplaying, fmt.Sprintf("%s (%d/%d replays; diagnostics kept at %s)", v.Signature, okCount, pc.confirmRuns, p))
			continue
		}
		min.Note = fmt.Sprintf("confirmed in %d/%d fresh processes; minimised with %d candidate executions", okCount, pc.confirmRuns, used)
		os.MkdirAll(replayDir(), 0o755)
		p := filepath.Join(replayDir(), fmt.Sprintf("%s-%d-%s.json", id, v.Seed, sanitize(min.Signature)))
		b, _ := json.MarshalIndent(min, "", " ")
		os.WriteFile(p, b, 0o644)
		reported = append(reported, confirmed{min, p})
	}

	for _, nr := range nonReplaying {
		fmt.Printf("simcheck: a failure seen during the search did not replay in a fresh process and is NOT reported: %s\n", nr)
	}
	if len(reported) == 0 && len(nonReplaying) > 0 {
		trouble("failures were seen but none replayed: %v", nonReplaying)
	}
	// fault kinds that never fired are a failure of the machinery, not silence
	var missing []string
	if len(reported) == 0 {
		for _, k := range pc.requireFaults {
			if m.Faults[k] == 0 {
				missing = append(missing, k)
			}
		}
	}

	wall := time.Since(start).Seconds()
	cov := map[string]interface{}{
		"evaluations":         m.Evaluations,
		"distinct_nontrivial": len(m.distinct),
		"nontrivial_runs":     m.Nontrivial,
		"rule":                pc.rule,
		"samples":             m.Samples,
		"runs_per_hour":       int64(float64(m.Evaluations) / batchSeconds * 3600),
		"batch_seconds":       batchSeconds,
		"build_seconds":       bi.buildSeconds,
		"workers":             W,
		"seeds":               map[string]interface{}{"batch_seed": seed, "first_run_seed": m.FirstSeed, "last_run_seed": m.LastSeed, "derivation": "run_seed = splitmix64(VERIF_SEED, property number, run index)"},
		"sim_steps":           m.SimSteps,
		"sim_time_note":       "participle has no clock; simulated time is logical steps (statement-level yields executed inside simulated operations)",
		"context_switches":    m.Switches,
		"fault_counts":        m.Faults,
		"probes":              m.Probes,
		"worlds":              m.Worlds,
		"strategy_counts":     m.Strategies,
		"outcomes":            m.Outcomes,
		"components": map[string]interface{}{
			"real": []string{"participle parser, grammar builder, nodes, context (instrumented copy of /repo working tree)", "lexer: stateful, text/scanner, PeekingLexer, generated basic lexer", "lexers generated at check time by the working tree's cmd/participle", "ebnf package"},
			"stub": []string{"io.Reader / io.Writer endpoints (SimReader, SimWriter)", "source lexers and definition wrappers (SimDef)", "user callbacks (Parseable, Capture, TextUnmarshaler, ParseTypeWith, Mapper)", "the Go scheduler's choice of runnable goroutine (replaced by the tape-driven scheduler)", "Go's randomised map iteration order (replaced by sorted-then-tape-permuted order)"},
		},
		"determinism_selfcheck": map[string]interface{}{"seeds": selfN, "processes": len(selfDigests), "gomaxprocs": []int{1, 4, 16}, "mismatches": selfMismatch},
		"degraded":              bi.degraded,
		"instrumentation":       bi.instrSummary,
		// a handful at most, and which ones are reached depends on how many runs fit into the batch:
		// reported as text so that nobody reads it as a measure of work done
		"discarded_runs":                     fmt.Sprintf("%d of %d runs dropped unjudged (stall guard or trace budget hit where no clause is about it)", m.Discarded, m.Evaluations),
		"max_steps_per_op":                   m.MaxOpSteps,
		"max_step_cap_ratio":                 m.MaxCapRatio,
		"max_logical_depth":                  m.MaxDepth,
		"map_ranges_executed":                m.MapRanges,
		"map_ranges_permuted":                m.MapShuffles,
		"uncontrolled_map_ranges_executed":   m.Uncontrolled,
		"site_table_hash":                    bi.siteHash,
		"repo_tree_hash":                     bi.repoHash,
		"non_std_imports_of_code_under_test": bi.imports,
		"known_findings_hit":                 m.Known,
	}
	if pc.needGen {
		cov["lexers_generated_by_this_trees_generator"] = generatedOK
		cov["optional_fixtures_not_generated_or_not_compiling_on_this_tree"] = append([]string{}, optionalRejected...)
	}
	if pc.race {
		cov["stmt_level_switches"] = m.StmtSwitch
		cov["hot_site_switches"] = m.HotSwitch
		cov["parks"] = m.Parks
		cov["directed_resumes"] = m.Directed
		cov["function_overlap_pairs"] = len(m.pairs)
		cov["race_reports"] = m.RaceReports
	}
	ev := &evidence{PropertyID: id, Tier: tier, Seed: int64(seed), Level: pc.level, Coverage: cov, Assumptions: pc.assumptions, WallS: wall, Violations: len(reported)}
	writeEvidence(pc, ev)

	if m.SlowestRunS > 5 {
		fmt.Printf("simcheck: slowest single run: index %d, %.1fs of real time\n", m.SlowestRun, m.SlowestRunS)
	}
	fmt.Printf("simcheck: %d runs (%d distinct non-trivial) in %.1fs batch / %.1fs wall; faults fired: %s\n", m.Evaluations, len(m.distinct), batchSeconds, wall, renderCounts(m.Faults))
	for _, f := range knownList {
		key := f.Signature + f.SignatureRegex + "|" + f.Input + f.InputRegex
		fmt.Printf("KNOWN-FINDING: property=%s %s (signature %s, hit %d times in this batch)\n", id, f.What, f.Signature, m.Known[key])
	}
	for _, r := range reported {
		fmt.Printf("violation: %s\n  %s\n  minimised tape: %d entries; %s\n", r.rf.Signature, clip(r.rf.Detail, 1500), len(r.rf.Tape), r.rf.Note)
		fmt.Printf("VIOLATION property=%s replay=%s\n", id, r.path)
		exit = 1
	}
	if exit == 0 && len(missing) > 0 {
		trouble("fault kinds configured but never fired in this batch: %v", missing)
	}
	if exit == 0 {
		fmt.Printf("simcheck: property %s held on everything explored\n", id)
	}
	cleanup()
	return exit
}

func sanitize(s string) string {
	var b strings.Builder
	for _, r := range s {
		if r >= 'a' && r <= 'z' || r >= 'A' && r <= 'Z' || r >= '0' && r <= '9' || r == '-' || r == '_' {
			b.WriteRune(r)
		} else {
			b.WriteByte('_')
		}
	}
	out := b.String()
	if len(out) > 80 {
		out = out[:80]
	}
	return out
}

func renderCounts(m map[string]int64) string {
	var parts []string
	for _, k := range sortedKeys(m) {
		parts = append(parts, fmt.Sprintf("%s=%d", k, m[k]))
	}
	if len(parts) == 0 {
		return "(none)"
	}
	return strings.Join(parts, " ")
}

// selftestCmd: many seeds, each executed in several processes at several GOMAXPROCS and worker
// counts; all event digests must agree run by run.
func selftestCmd(id string) int {
	pc := props[id]
	if pc == nil {
		fmt.Fprintf(os.Stderr, "simcheck: unknown property %q\n", id)
		return 2
	}
	seed := seedFromEnv()
	bi := prepare(pc)
	defer cleanup()
	n := pc.selfSeeds
	if v, err := strconv.ParseInt(os.Getenv("VERIF_SELFTEST_SEEDS"), 10, 64); err == nil && v > 0 {
		n = v
	}
	subs := subBatches(pc)
	mismatches := 0
	procs := 0
	for _, sub := range subs {
		// one process running all n seeds at GOMAXPROCS=1, then 16 parallel processes each running a
		// slice at mixed GOMAXPROCS, then per-slice digests are compared against single-slice reruns.
		type key struct{ from, count int64 }
		ref := map[key]uint64{}
		slice := n / 16
		if slice == 0 {
			slice = 1
		}
		var mu sync.Mutex
		var wg sync.WaitGroup
		var firstErr error
		for rep, gmps := range [][]int{{1}, {4}, {16}, {1, 4, 16, 2}} {
			for w := int64(0); w*slice < n; w++ {
				wg.Add(1)
				go func(rep int, w int64, gmp int) {
					defer wg.Done()
					a, err := runWorker(bi, pc, seed, int(1000*int64(rep)+w), workerSpec{from: w * slice, stride: 1, count: slice, gomaxprocs: gmp, sub: sub, samples: 0, maxViol: 1000000}, "")
					mu.Lock()
					defer mu.Unlock()
					procs++
					if err != nil {
						if firstErr == nil {
							firstErr = err
						}
						return
					}
					k := key{w * slice, slice}
					if d, ok := ref[k]; ok {
						if d != a.Digest {
							mismatches++
							fmt.Printf("selftest: MISMATCH property=%s sub=%q runs [%d,%d): %d vs %d (GOMAXPROCS=%d)\n", id, sub, k.from, k.from+k.count, d, a.Digest, gmp)
						}
					} else {
						ref[k] = a.Digest
					}
				}(rep, w, gmps[int(w)%len(gmps)])
				if rep == 0 {
					wg.Wait() // sequential first pass: one worker at a time
				}
			}
			wg.Wait()
		}
		if firstErr != nil {
			trouble("selftest: %v", firstErr)
		}
	}
	fmt.Printf("selftest: property=%s seeds=%d processes=%d mismatches=%d\n", id, n, procs, mismatches)
	// instrumentation neutrality: instrumented and pristine builds must compute the same results
	refDigest := func(bin string) string {
		out, err := run(filepath.Join(scratch, "src"), os.Environ(), bin, "refdigest")
		if err != nil {
			trouble("refdigest failed: %v: %s", err, clip(out, 2000))
		}
		return strings.TrimSpace(out)
	}
	instrDigest := refDigest(bi.bin)
	keep := scratch
	skipInstrumentation = true
	bi2 := prepare(pc)
	plainDigest := refDigest(bi2.bin)
	os.RemoveAll(scratch)
	scratch = keep
	fmt.Printf("selftest: neutrality instrumented=%s pristine=%s\n", instrDigest, plainDigest)
	if instrDigest != plainDigest {
		fmt.Printf("selftest: NEUTRALITY MISMATCH: the instrumented copy computes different results than the pristine tree\n")
		mismatches++
	}
	cleanup()
	if mismatches > 0 {
		return 2
	}
	return 0
}

func replayDir() string { return envOr("VERIF_REPLAY_DIR", filepath.Join(verifHome, "replays")) }
