// Command simcheck is the batch driver of the deterministic simulator for participle.
//
//	simcheck <property> <quick|thorough>     run a batch, write /verif/evidence/<property>.json
//	simcheck replay <file>                   rebuild from /repo and re-execute one replay file
//	simcheck selftest <property>             determinism self-test over many seeds / processes / GOMAXPROCS
//
// Exit codes: 0 property held on everything explored (KNOWN-FINDING lines allowed);
// 1 replay-confirmed violation (a line "VIOLATION property=<id> replay=<path>" is printed);
// 2 trouble in the machinery (build failure, watchdog, non-replaying failure, a fault kind that never
// fired) — never reported as a violation.
package main

import (
	"bytes"
	"crypto/sha256"
	"encoding/hex"
	"encoding/json"
	"fmt"
	"io"
	"os"
	"os/exec"
	"os/signal"
	"path/filepath"
	"runtime"
	"sort"
	"strconv"
	"strings"
	"sync"
	"syscall"
	"time"
)

var (
	verifHome = envOr("VERIF_HOME", "/verif")
	repoDir   = envOr("VERIF_REPO", "/repo")
	scratch   string
)

func envOr(k, d string) string {
	if v := os.Getenv(k); v != "" {
		return v
	}
	return d
}

func goEnv() []string {
	env := os.Environ()
	env = append(env, "GOFLAGS=-mod=mod", "GOPROXY=off", "GOSUMDB=off", "GOTOOLCHAIN=local", "CGO_ENABLED=1")
	return env
}

type propCfg struct {
	id            string
	race          bool
	needGen       bool
	quickSeconds  float64
	thoroughSecs  float64
	level         string
	rule          string
	assumptions   []string
	requireFaults []string // fault kinds that must have fired at least once in a batch
	selfSeeds     int64
	confirmRuns   int
	minBudget     int
}

var props = map[string]*propCfg{}

func trouble(format string, args ...interface{}) {
	fmt.Fprintf(os.Stderr, "simcheck: machinery trouble: "+format+"\n", args...)
	cleanup()
	os.Exit(2)
}

func cleanup() {
	if scratch != "" && os.Getenv("VERIF_KEEP_SCRATCH") == "" {
		os.RemoveAll(scratch)
	}
}

func run(dir string, env []string, name string, args ...string) (string, error) {
	cmd := exec.Command(name, args...)
	cmd.Dir = dir
	cmd.Env = env
	var out bytes.Buffer
	cmd.Stdout = &out
	cmd.Stderr = &out
	err := cmd.Run()
	return out.String(), err
}

func copyTree(src, dst string, skip func(rel string, info os.FileInfo) bool) error {
	return filepath.Walk(src, func(p string, info os.FileInfo, err error) error {
		if err != nil {
			return err
		}
		rel, _ := filepath.Rel(src, p)
		if rel == "." {
			return os.MkdirAll(dst, 0o755)
		}
		if skip != nil && skip(rel, info) {
			if info.IsDir() {
				return filepath.SkipDir
			}
			return nil
		}
		target := filepath.Join(dst, rel)
		if info.IsDir() {
			return os.MkdirAll(target, 0o755)
		}
		if !info.Mode().IsRegular() {
			return nil
		}
		in, err := os.Open(p)
		if err != nil {
			return err
		}
		defer in.Close()
		out, err := os.OpenFile(target, os.O_CREATE|os.O_WRONLY|os.O_TRUNC, info.Mode().Perm()|0o200)
		if err != nil {
			return err
		}
		defer out.Close()
		_, err = io.Copy(out, in)
		return err
	})
}

type buildInfo struct {
	bin          string
	degraded     bool
	siteHash     string
	repoHash     string
	instrSummary map[string]int
	buildSeconds float64
	imports      []string
}

func hashTree(root string, dirs []string) string {
	h := sha256.New()
	for _, d := range dirs {
		entries, err := os.ReadDir(filepath.Join(root, d))
		if err != nil {
			continue
		}
		for _, e := range entries {
			if e.IsDir() || !strings.HasSuffix(e.Name(), ".go") && !strings.HasSuffix(e.Name(), ".tmpl") {
				continue
			}
			b, err := os.ReadFile(filepath.Join(root, d, e.Name()))
			if err != nil {
				continue
			}
			fmt.Fprintf(h, "%s/%s %d\n", d, e.Name(), len(b))
			h.Write(b)
		}
	}
	return hex.EncodeToString(h.Sum(nil))[:16]
}

var optionalRejected, generatedOK []string

// skipInstrumentation makes prepare build the harness over the pristine copy (self-test only).
var skipInstrumentation bool

// prepare builds the simulation binary from /repo's current working tree.
func prepare(pc *propCfg) *buildInfo {
	start := time.Now()
	var err error
	scratch, err = os.MkdirTemp("", "verifsim-")
	if err != nil {
		trouble("mktemp: %v", err)
	}
	root := filepath.Join(scratch, "src")
	err = copyTree(repoDir, root, func(rel string, info os.FileInfo) bool {
		base := filepath.Base(rel)
		if info.IsDir() {
			return base == ".git" || rel == "_examples" || rel == "bin" || rel == "scripts"
		}
		if strings.HasSuffix(base, "_test.go") {
			return true
		}
		return info.Size() > 4<<20 || strings.HasSuffix(base, ".png") || (info.Mode()&0o111 != 0 && !strings.Contains(base, "."))
	})
	if err != nil {
		trouble("copying %s: %v", repoDir, err)
	}
	bi := &buildInfo{}
	bi.repoHash = hashTree(root, []string{".", "lexer", "lexer/internal", "ebnf", "cmd/participle"})
	env := goEnv()
	// overlay (harness sources; new files only)
	err = copyTree(filepath.Join(verifHome, "sim", "overlay"), root, nil)
	if err != nil {
		trouble("overlay: %v", err)
	}
	genDir := filepath.Join(root, "verifsim", "gen")
	os.MkdirAll(genDir, 0o755)
	// generated lexers from the working tree's generator
	genOK := false
	if pc.needGen {
		out, err := run(filepath.Join(root, "cmd", "participle"), env, "go", "build", "-o", filepath.Join(scratch, "genbin"), ".")
		if err != nil {
			trouble("building the lexer generator failed:\n%s", out)
		}
		fixtures, _ := filepath.Glob(filepath.Join(verifHome, "sim", "fixtures", "*.json"))
		sort.Strings(fixtures)
		genOK = true
		for _, fx := range fixtures {
			name := strings.TrimSuffix(filepath.Base(fx), ".json")
			in, err := os.Open(fx)
			if err != nil {
				trouble("%v", err)
			}
			cmd := exec.Command(filepath.Join(scratch, "genbin"), "gen", "lexer", "--name", name, "-o", filepath.Join(genDir, strings.ToLower(name)+".go"), "gen")
			cmd.Stdin = in
			cmd.Env = env
			o, err := cmd.CombinedOutput()
			in.Close()
			if err != nil {
				if strings.HasPrefix(name, "Opt") {
					// optional fixture: uses a regex feature the generator of this tree may reject
					os.Remove(filepath.Join(genDir, strings.ToLower(name)+".go"))
					optionalRejected = append(optionalRejected, name)
					continue
				}
				trouble("lexer generator failed on fixture %s:\n%s", name, o)
			}
			if strings.HasPrefix(name, "Opt") {
				// the generator accepted it: does what it wrote compile?  (For definitions with
				// back-references the unchanged generator writes code that does not.)
				if o, err := run(root, env, "go", "build", "./verifsim/gen"); err != nil {
					_ = o
					os.Remove(filepath.Join(genDir, strings.ToLower(name)+".go"))
					optionalRejected = append(optionalRejected, name)
					continue
				}
			}
			generatedOK = append(generatedOK, name)
		}
	}
	if genOK {
		var hook strings.Builder
		hook.WriteString("package main\n\nimport \"github.com/alecthomas/participle/v2/verifsim/gen\"\n\nfunc init() {\n")
		fixtures, _ := filepath.Glob(filepath.Join(verifHome, "sim", "fixtures", "*.json"))
		sort.Strings(fixtures)
		for _, fx := range fixtures {
			name := strings.TrimSuffix(filepath.Base(fx), ".json")
			skip := false
			for _, r := range optionalRejected {
				if r == name {
					skip = true
				}
			}
			if skip {
				continue
			}
			fmt.Fprintf(&hook, "\tgeneratedDefs[%q] = gen.%sLexer\n", name, name)
		}
		hook.WriteString("}\n")
		os.WriteFile(filepath.Join(root, "verifsim", "genhook.go"), []byte(hook.String()), 0o644)
	} else {
		os.RemoveAll(genDir)
	}
	// instrument
	pkgs := ".,lexer,lexer/internal,ebnf"
	if genOK {
		pkgs += ",verifsim/gen"
	}
	var out string
	if skipInstrumentation {
		bi.instrSummary = map[string]int{}
		out, err = build0(root, env, pc, false)
		if err != nil {
			trouble("uninstrumented build failed:\n%s", out)
		}
		bi.bin = filepath.Join(scratch, "simbin")
		bi.degraded = true
		bi.buildSeconds = time.Since(start).Seconds()
		return bi
	}
	out, err = run(root, env, filepath.Join(verifHome, "bin", "instr"), "-root", root, "-pkgs", pkgs)
	instrumented := err == nil
	if err == nil {
		line := strings.TrimSpace(out)
		if i := strings.LastIndex(line, "\n"); i >= 0 {
			line = line[i+1:]
		}
		json.Unmarshal([]byte(line), &bi.instrSummary)
		if b, err := os.ReadFile(filepath.Join(root, "sites.json")); err == nil {
			s := sha256.Sum256(b)
			bi.siteHash = hex.EncodeToString(s[:])[:16]
		}
	} else {
		fmt.Fprintf(os.Stderr, "simcheck: instrumenter failed, trying the degraded (uninstrumented) build:\n%s\n", out)
	}
	build := func() (string, error) {
		args := []string{"build"}
		if pc.race {
			args = append(args, "-race")
		}
		args = append(args, "-o", filepath.Join(scratch, "simbin"), "./verifsim")
		return run(root, env, "go", args...)
	}
	out, err = build()
	if err != nil && instrumented {
		// Is it the instrumenter's fault?  Rebuild from a pristine copy.
		fmt.Fprintf(os.Stderr, "simcheck: instrumented build failed:\n%s\n", out)
		instrumented = false
	}
	if !instrumented {
		// restore pristine participle sources, keep overlay and generated lexers
		err = copyTree(repoDir, root, func(rel string, info os.FileInfo) bool {
			base := filepath.Base(rel)
			if info.IsDir() {
				return base == ".git" || rel == "_examples" || rel == "bin" || rel == "scripts" || rel == "cmd"
			}
			return !strings.HasSuffix(base, ".go") || strings.HasSuffix(base, "_test.go")
		})
		if err != nil {
			trouble("restoring pristine copy: %v", err)
		}
		stubSites, _ := os.ReadFile(filepath.Join(verifHome, "sim", "overlay", "simrt", "sites_gen.go"))
		os.WriteFile(filepath.Join(root, "simrt", "sites_gen.go"), stubSites, 0o644)
		if genOK {
			trouble("degraded build with generated lexers is not supported (generated files were instrumented in place); instrumenter output above")
		}
		out, err = build()
		if err != nil {
			trouble("the simulation binary does not build even without instrumentation:\n%s", out)
		}
		bi.degraded = true
	}
	// import set of the code under test (a dependency that starts goroutines would escape the scheduler)
	if o, err := run(root, env, "go", "list", "-deps", "-f", "{{if not .Standard}}{{.ImportPath}}{{end}}", ".", "./lexer", "./ebnf", "./lexer/internal"); err == nil {
		for _, l := range strings.Fields(o) {
			bi.imports = append(bi.imports, l)
		}
	}
	bi.bin = filepath.Join(scratch, "simbin")
	bi.buildSeconds = time.Since(start).Seconds()
	return bi
}

func build0(root string, env []string, pc *propCfg, race bool) (string, error) {
	args := []string{"build"}
	if race {
		args = append(args, "-race")
	}
	args = append(args, "-o", filepath.Join(scratch, "simbin"), "./verifsim")
	return run(root, env, "go", args...)
}

// ---------------------------------------------------------------------------------------------

type violation struct {
	Property  string   `json:"property"`
	Signature string   `json:"signature"`
	Detail    string   `json:"detail"`
	Input     string   `json:"input,omitempty"`
	Seed      uint64   `json:"seed"`
	RunIndex  int64    `json:"run_index"`
	Sub       string   `json:"sub,omitempty"`
	Tape      []uint32 `json:"tape"`
}

type agg struct {
	Property     string            `json:"property"`
	Evaluations  int64             `json:"evaluations"`
	Nontrivial   int64             `json:"nontrivial"`
	Distinct     []uint64          `json:"distinct"`
	Faults       map[string]int64  `json:"faults"`
	Probes       map[string]int64  `json:"probes"`
	Worlds       map[string]int64  `json:"worlds"`
	Strategies   map[string]int64  `json:"strategies"`
	Outcomes     map[string]int64  `json:"outcomes"`
	Samples      []json.RawMessage `json:"samples"`
	Violations   []*violation      `json:"violations"`
	Known        map[string]int64  `json:"known"`
	SimSteps     int64             `json:"sim_steps"`
	Switches     int64             `json:"switches"`
	StmtSwitch   int64             `json:"stmt_switches"`
	HotSwitch    int64             `json:"hot_switches"`
	Parks        int64             `json:"parks"`
	Directed     int64             `json:"directed_resumes"`
	Discarded    int64             `json:"discarded"`
	Pairs        []uint32          `json:"pairs"`
	MaxOpSteps   int64             `json:"max_op_steps"`
	MaxCapRatio  float64           `json:"max_step_cap_ratio"`
	MaxDepth     int64             `json:"max_depth"`
	Digest       uint64            `json:"digest"`
	MapRanges    int64             `json:"map_ranges"`
	MapShuffles  int64             `json:"map_shuffles"`
	Uncontrolled int64             `json:"uncontrolled_map_ranges"`
	Stalled      bool              `json:"stalled"`
	SlowestRunS  float64           `json:"slowest_run_seconds"`
	SlowestRun   int64             `json:"slowest_run_index"`
	FirstSeed    uint64            `json:"first_seed"`
	LastSeed     uint64            `json:"last_seed"`
	RaceReports  int64             `json:"race_reports"`
	Instrumented bool              `json:"instrumented"`
	Race         bool              `json:"race_build"`
}

func mergeMap(dst, src map[string]int64) {
	for k, v := range src {
		dst[k] += v
	}
}

type workerSpec struct {
	tier                string
	from, stride, count int64
	seconds             float64
	gomaxprocs          int
	sub                 string
	samples             int
	maxViol             int
}

func runWorker(bi *buildInfo, pc *propCfg, seed uint64, w int, spec workerSpec, knownFile string) (*agg, error) {
	outFile := filepath.Join(scratch, fmt.Sprintf("out-%d-%d.json", w, time.Now().UnixNano()))
	args := []string{"worker", "-prop", pc.id, "-seed", strconv.FormatUint(seed, 10), "-from", strconv.FormatInt(spec.from, 10),
		"-stride", strconv.FormatInt(spec.stride, 10), "-out", outFile, "-sub", spec.sub, "-samples", strconv.Itoa(spec.samples)}
	if spec.count > 0 {
		args = append(args, "-count", strconv.FormatInt(spec.count, 10))
	}
	if spec.tier != "" {
		args = append(args, "-tier", spec.tier)
	}
	if spec.seconds > 0 {
		args = append(args, "-seconds", strconv.FormatFloat(spec.seconds, 'f', 1, 64))
	}
	if spec.maxViol > 0 {
		args = append(args, "-max-violations", strconv.Itoa(spec.maxViol))
	}
	if knownFile != "" {
		args = append(args, "-known", knownFile)
	}
	cmd := exec.Command(bi.bin, args...)
	cmd.Dir = filepath.Join(scratch, "src")
	env := append(os.Environ(), "VERIF_SCRATCH_ROOT="+filepath.Join(scratch, "src"))
	if spec.gomaxprocs > 0 {
		env = append(env, "GOMAXPROCS="+strconv.Itoa(spec.gomaxprocs))
	}
	if pc.race {
		env = append(env, fmt.Sprintf("GORACE=log_path=%s halt_on_error=0 history_size=2 atexit_sleep_ms=0 exitcode=0", filepath.Join(scratch, fmt.Sprintf("race-%d-%d", w, time.Now().UnixNano()))))
	}
	cmd.Env = env
	var stderr bytes.Buffer
	cmd.Stderr = &stderr
	cmd.Stdout = &stderr
	// real-time guard: budget plus generous slack; a worker that overruns is machinery trouble
	limit := time.Duration((2*spec.seconds + 240) * float64(time.Second))
	if spec.seconds == 0 {
		limit = 30 * time.Minute
	}
	if err := cmd.Start(); err != nil {
		return nil, err
	}
	done := make(chan error, 1)
	go func() { done <- cmd.Wait() }()
	var werr error
	select {
	case werr = <-done:
	case <-time.After(limit):
		cmd.Process.Kill()
		<-done
		return nil, fmt.Errorf("worker %d exceeded its real-time limit of %v (stderr: %s)", w, limit, clip(stderr.String(), 2000))
	}
	data, rerr := os.ReadFile(outFile)
	os.Remove(outFile)
	if rerr != nil {
		return nil, fmt.Errorf("worker %d produced no result (%v): %s", w, werr, clip(stderr.String(), 4000))
	}
	var a agg
	if err := json.Unmarshal(data, &a); err != nil {
		return nil, fmt.Errorf("worker %d result unreadable: %v", w, err)
	}
	if werr != nil && !a.Stalled {
		return nil, fmt.Errorf("worker %d failed (%v): %s", w, werr, clip(stderr.String(), 4000))
	}
	return &a, nil
}

func clip(s string, n int) string {
	if len(s) <= n {
		return s
	}
	return s[:n] + "..."
}

type merged struct {
	agg
	distinct map[uint64]struct{}
	pairs    map[uint32]struct{}
}

func newMerged() *merged {
	m := &merged{distinct: map[uint64]struct{}{}, pairs: map[uint32]struct{}{}}
	m.Faults, m.Probes, m.Worlds, m.Strategies, m.Outcomes, m.Known = map[string]int64{}, map[string]int64{}, map[string]int64{}, map[string]int64{}, map[string]int64{}, map[string]int64{}
	return m
}

func (m *merged) add(a *agg) {
	m.Evaluations += a.Evaluations
	m.Nontrivial += a.Nontrivial
	for _, d := range a.Distinct {
		m.distinct[d] = struct{}{}
	}
	for _, p := range a.Pairs {
		m.pairs[p] = struct{}{}
	}
	mergeMap(m.Faults, a.Faults)
	mergeMap(m.Probes, a.Probes)
	mergeMap(m.Worlds, a.Worlds)
	mergeMap(m.Strategies, a.Strategies)
	mergeMap(m.Outcomes, a.Outcomes)
	mergeMap(m.Known, a.Known)
	if len(m.Samples) < 8 {
		for _, s := range a.Samples {
			if len(m.Samples) < 8 {
				m.Samples = append(m.Samples, s)
			}
		}
	}
	m.Violations = append(m.Violations, a.Violations...)
	m.SimSteps += a.SimSteps
	m.Switches += a.Switches
	m.StmtSwitch += a.StmtSwitch
	m.HotSwitch += a.HotSwitch
	m.Parks += a.Parks
	m.Directed += a.Directed
	m.Discarded += a.Discarded
	if a.MaxOpSteps > m.MaxOpSteps {
		m.MaxOpSteps = a.MaxOpSteps
	}
	if a.MaxCapRatio > m.MaxCapRatio {
		m.MaxCapRatio = a.MaxCapRatio
	}
	if a.MaxDepth > m.MaxDepth {
		m.MaxDepth = a.MaxDepth
	}
	m.Digest += a.Digest
	m.MapRanges += a.MapRanges
	m.MapShuffles += a.MapShuffles
	m.Uncontrolled += a.Uncontrolled
	m.RaceReports += a.RaceReports
	m.Stalled = m.Stalled || a.Stalled
	if a.SlowestRunS > m.SlowestRunS {
		m.SlowestRunS, m.SlowestRun = a.SlowestRunS, a.SlowestRun
	}
	m.Instrumented = a.Instrumented
	m.Race = a.Race
	if m.FirstSeed == 0 {
		m.FirstSeed = a.FirstSeed
	}
	m.LastSeed = a.LastSeed
}

// ---------------------------------------------------------------------------------------------
// known findings
// ---------------------------------------------------------------------------------------------

type finding struct {
	Status    string `json:"status"` // "known" or "fixed"
	Property  string `json:"property"`
	Signature string `json:"signature"`
	Input     string `json:"input,omitempty"`
	// a known finding may instead be identified by regular expressions over signature and input
	SignatureRegex string `json:"signature_regex,omitempty"`
	InputRegex     string `json:"input_regex,omitempty"`
	Commit         string `json:"commit,omitempty"`
	What           string `json:"what"`
}

type findingsFile struct {
	Findings []finding `json:"findings"`
	Log      []string  `json:"log"`
}

func loadFindings() findingsFile {
	var ff findingsFile
	b, err := os.ReadFile(filepath.Join(verifHome, "known_findings.json"))
	if err != nil {
		return ff
	}
	if err := json.Unmarshal(b, &ff); err != nil {
		trouble("known_findings.json unreadable: %v", err)
	}
	return ff
}

// ---------------------------------------------------------------------------------------------
// replay / minimisation
// ---------------------------------------------------------------------------------------------

type replayFile struct {
	Property  string      `json:"property"`
	Tier      string      `json:"tier"`
	Seed      uint64      `json:"seed"`
	RunIndex  int64       `json:"run_index"`
	Sub       string      `json:"sub,omitempty"`
	Tape      []uint32    `json:"tape"`
	Signature string      `json:"signature"`
	Detail    string      `json:"detail"`
	Input     string      `json:"input,omitempty"`
	SiteHash  string      `json:"site_table_hash,omitempty"`
	RepoHash  string      `json:"repo_tree_hash,omitempty"`
	Note      string      `json:"note,omitempty"`
	Target    *targetSpec `json:"target,omitempty"`
}

type targetSpec struct {
	Park string `json:"park"`
	Peer string `json:"peer"`
	Nth  int    `json:"nth"`
}

type replayResult struct {
	Violated  bool            `json:"violated"`
	Signature string          `json:"signature"`
	Detail    string          `json:"detail"`
	Input     string          `json:"input"`
	Tape      []uint32        `json:"tape"`
	Digest    uint64          `json:"digest"`
	Stalled   bool            `json:"stalled"`
	Sample    json.RawMessage `json:"sample"`
}

var replayCounter int64
var replayMu sync.Mutex

func execReplay(bi *buildInfo, pc *propCfg, rf *replayFile, verbose bool) (*replayResult, error) {
	replayMu.Lock()
	replayCounter++
	n := replayCounter
	replayMu.Unlock()
	f := filepath.Join(scratch, fmt.Sprintf("cand-%d.json", n))
	b, _ := json.Marshal(rf)
	if err := os.WriteFile(f, b, 0o644); err != nil {
		return nil, err
	}
	defer os.Remove(f)
	args := []string{"replay", "-file", f}
	if verbose {
		args = append(args, "-v")
	}
	cmd := exec.Command(bi.bin, args...)
	cmd.Dir = filepath.Join(scratch, "src")
	env := append(os.Environ(), "VERIF_SCRATCH_ROOT="+filepath.Join(scratch, "src"))
	raceLog := filepath.Join(scratch, fmt.Sprintf("race-replay-%d", n))
	if pc.race {
		env = append(env, fmt.Sprintf("GORACE=log_path=%s halt_on_error=0 history_size=2 atexit_sleep_ms=0 exitcode=0", raceLog))
	}
	cmd.Env = env
	var stdout, stderr bytes.Buffer
	cmd.Stdout = &stdout
	cmd.Stderr = &stderr
	if err := cmd.Start(); err != nil {
		return nil, err
	}
	done := make(chan error, 1)
	go func() { done <- cmd.Wait() }()
	select {
	case err := <-done:
		if err != nil {
			return nil, fmt.Errorf("replay process failed: %v: %s", err, clip(stderr.String(), 3000))
		}
	case <-time.After(5 * time.Minute):
		cmd.Process.Kill()
		<-done
		return nil, fmt.Errorf("replay process exceeded 5 minutes")
	}
	if pc.race {
		matches, _ := filepath.Glob(raceLog + ".*")
		for _, m := range matches {
			os.Remove(m)
		}
	}
	var rr replayResult
	line := strings.TrimSpace(stdout.String())
	if i := strings.LastIndex(line, "\n"); i >= 0 {
		line = line[i+1:]
	}
	if err := json.Unmarshal([]byte(line), &rr); err != nil {
		return nil, fmt.Errorf("replay output unreadable: %v: %q / %s", err, clip(stdout.String(), 500), clip(stderr.String(), 2000))
	}
	return &rr, nil
}

// minimise shrinks a failing tape with generic passes; a candidate is accepted iff a fresh
// process fails with the same signature.
func minimise(bi *buildInfo, pc *propCfg, rf *replayFile, budget int) (*replayFile, int) {
	best := *rf
	used := 0
	try := func(t []uint32) bool {
		if used >= budget {
			return false
		}
		used++
		c := best
		c.Tape = t
		rr, err := execReplay(bi, pc, &c, false)
		if err != nil || !rr.Violated || rr.Signature != best.Signature {
			return false
		}
		// the replay consumed only a prefix of the candidate: keep just that
		if len(rr.Tape) > 0 && len(rr.Tape) <= len(t) {
			t = rr.Tape
		}
		best.Tape = append([]uint32(nil), t...)
		best.Detail = rr.Detail
		best.Input = rr.Input
		return true
	}
	// 0. the consumed prefix
	try(best.Tape)
	// 1. shortest failing prefix (exhausted tape reads as zeros)
	lo, hi := 0, len(best.Tape)
	for lo < hi && used < budget {
		mid := (lo + hi) / 2
		if try(best.Tape[:mid]) {
			hi = len(best.Tape)
			if hi > mid {
				hi = mid
			}
		} else {
			lo = mid + 1
		}
	}
	// 2. delete spans, 3. zero spans
	for pass := 0; pass < 2; pass++ {
		for size := len(best.Tape) / 2; size >= 1 && used < budget; size /= 2 {
			for i := 0; i+size <= len(best.Tape) && used < budget; {
				var cand []uint32
				if pass == 0 {
					cand = append(append([]uint32(nil), best.Tape[:i]...), best.Tape[i+size:]...)
				} else {
					allZero := true
					for _, v := range best.Tape[i : i+size] {
						if v != 0 {
							allZero = false
						}
					}
					if allZero {
						i += size
						continue
					}
					cand = append([]uint32(nil), best.Tape...)
					for j := i; j < i+size; j++ {
						cand[j] = 0
					}
				}
				if !try(cand) {
					i += size
				} else if pass == 1 {
					i += size
				}
			}
		}
	}
	// 4. lower single entries
	for i := 0; i < len(best.Tape) && used < budget; i++ {
		for best.Tape[i] > 0 && used < budget {
			cand := append([]uint32(nil), best.Tape...)
			cand[i] = cand[i] / 2
			if !try(cand) {
				break
			}
		}
	}
	return &best, used
}

// ---------------------------------------------------------------------------------------------

func numWorkers() int {
	n := runtime.NumCPU()
	if n > 16 {
		n = 16
	}
	if v, err := strconv.Atoi(os.Getenv("VERIF_WORKERS")); err == nil && v > 0 {
		n = v
	}
	return n
}

func seedFromEnv() uint64 {
	if v := os.Getenv("VERIF_SEED"); v != "" {
		if n, err := strconv.ParseUint(v, 10, 64); err == nil {
			return n
		}
		if n, err := strconv.ParseInt(v, 10, 64); err == nil {
			return uint64(n)
		}
	}
	return 1
}

func main() {
	if len(os.Args) < 2 {
		fmt.Fprintln(os.Stderr, "usage: simcheck <property> <quick|thorough> | replay <file> | selftest <property>")
		os.Exit(2)
	}
	sigc := make(chan os.Signal, 1)
	signal.Notify(sigc, syscall.SIGINT, syscall.SIGTERM)
	go func() { <-sigc; cleanup(); os.Exit(2) }()
	switch os.Args[1] {
	case "replay":
		if len(os.Args) < 3 {
			trouble("replay needs a file")
		}
		os.Exit(replayCmd(os.Args[2]))
	case "selftest":
		if len(os.Args) < 3 {
			trouble("selftest needs a property")
		}
		os.Exit(selftestCmd(os.Args[2]))
	default:
		tier := "quick"
		if len(os.Args) >= 3 {
			tier = os.Args[2]
		}
		if t := os.Getenv("VERIF_TIER"); t == "quick" || t == "thorough" {
			tier = t
		}
		os.Exit(checkCmd(os.Args[1], tier))
	}
}

func replayCmd(file string) int {
	b, err := os.ReadFile(file)
	if err != nil {
		trouble("%v", err)
	}
	var rf replayFile
	if err := json.Unmarshal(b, &rf); err != nil {
		trouble("replay file unreadable: %v", err)
	}
	pc := props[rf.Property]
	if pc == nil {
		trouble("unknown property %q", rf.Property)
	}
	bi := prepare(pc)
	defer cleanup()
	rr, err := execReplay(bi, pc, &rf, true)
	if err != nil {
		trouble("%v", err)
	}
	fmt.Printf("replay of %s: property=%s seed=%d run_index=%d tape_len=%d\n", file, rf.Property, rf.Seed, rf.RunIndex, len(rf.Tape))
	if len(rr.Sample) > 0 {
		fmt.Printf("run: %s\n", rr.Sample)
	}
	if bi.repoHash != rf.RepoHash && rf.RepoHash != "" {
		fmt.Printf("note: the tree differs from the one the replay file was recorded on (%s vs %s)\n", bi.repoHash, rf.RepoHash)
	}
	if rr.Violated {
		fmt.Printf("signature: %s\ndetail: %s\n", rr.Signature, rr.Detail)
		fmt.Printf("VIOLATION property=%s replay=%s\n", rf.Property, file)
		cleanup()
		return 1
	}
	fmt.Println("no violation on this tree")
	cleanup()
	return 0
}

// raceLocations splits a race signature "race/<loc>~<loc>" into its source locations.
func raceLocations(sig string) []string {
	sig = strings.TrimPrefix(sig, "race/")
	var out []string
	for _, l := range strings.Split(sig, "~") {
		if l != "" {
			out = append(out, l)
		}
	}
	return out
}

func sharesLocation(a, b string) bool {
	for _, x := range raceLocations(a) {
		for _, y := range raceLocations(b) {
			if x == y {
				return true
			}
		}
	}
	return false
}

// raceWitness turns a race report found during the search into a replayable witness.  Whether
// the detector notices a race in an arbitrary schedule depends on incidental happens-before edges
// through process-global standard-library state (sync.Pool in regexp and fmt, reflect's caches),
// which differ between a warm worker and a fresh replay process.  The witness keeps the run's
// world and operations (the tape) but replaces the schedule by the directed one that makes the
// two reported statements adjacent: then nothing can order them and the report is deterministic.
func raceWitness(bi *buildInfo, pc *propCfg, rf *replayFile) (*replayFile, int) {
	locs := raceLocations(rf.Signature)
	if len(locs) == 0 {
		return nil, 0
	}
	if len(locs) == 1 {
		locs = append(locs, locs[0])
	}
	tried := 0
	type cand struct{ park, peer string }
	cands := []cand{{locs[0], locs[1]}, {locs[1], locs[0]}}
	if locs[0] == locs[1] {
		cands = cands[:1]
	}
	// which arrival at the park statement is the one inside the racing pair of operations depends
	// on how many unrelated operations pass through it first: try the first few and then a thinning
	// series (each try is one fresh process)
	for _, nth := range []int{1, 2, 3, 4, 6, 8, 12, 16, 24, 32, 48, 64, 96, 128} {
		for _, c := range cands {
			if strings.HasPrefix(c.park, "verifsim/") {
				continue // harness code has no yield sites to park at
			}
			w := *rf
			w.Target = &targetSpec{Park: c.park, Peer: c.peer, Nth: nth}
			tried++
			rr, err := execReplay(bi, pc, &w, false)
			if err != nil || !rr.Violated || !strings.HasPrefix(rr.Signature, "race/") || !sharesLocation(rr.Signature, rf.Signature) {
				continue
			}
			w.Signature = rr.Signature
			w.Detail = rr.Detail
			return &w, tried
		}
	}
	return nil, tried
}
