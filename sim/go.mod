module verif/sim

go 1.18
