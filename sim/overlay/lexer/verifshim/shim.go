// Package verifshim re-exports lexer/internal for the simulation harness, which lives outside
// the lexer/ subtree and may therefore not import an internal package directly.
package verifshim

import (
	"github.com/alecthomas/participle/v2/lexer"
	"github.com/alecthomas/participle/v2/lexer/internal"
)

// GeneratedBasicLexer returns the checked-in generated lexer.
func GeneratedBasicLexer() lexer.Definition { return internal.GeneratedBasicLexer }
