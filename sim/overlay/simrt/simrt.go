// Package simrt is the runtime of the deterministic simulator: one choice tape that decides
// everything, a scheduler that releases real goroutines one at a time through hand-offs the
// race detector cannot see, logical step / recursion-depth accounting, and a controlled
// replacement for Go's randomised map iteration.
//
// It is copied into a scratch copy of participle at check time and called by the statements the
// instrumenter inserts there.  Every function on a hot path is //go:norace and avoids runtime
// helpers that carry their own race annotations (append, copy, maps), because simulator state is
// deliberately handed from task to task without any synchronisation the detector may see.
package simrt

import (
	"fmt"
	"sync"
	"time"
)

// ---------------------------------------------------------------------------------------------
// Choice tape
// ---------------------------------------------------------------------------------------------

type tapeT struct {
	active   bool
	replay   bool
	vals     []uint32 // recorded (search mode) or given (replay mode)
	n        int      // number of recorded values (search) / len(vals) (replay)
	pos      int      // next value to read (replay)
	rng      uint64
	hash     uint64
	draws    int64
	exhausts int64 // replay: draws made after the tape ran out (answered with 0)
}

var tape tapeT

//go:norace
func splitmix(x *uint64) uint64 {
	*x += 0x9e3779b97f4a7c15
	z := *x
	z = (z ^ (z >> 30)) * 0xbf58476d1ce4e5b9
	z = (z ^ (z >> 27)) * 0x94d049bb133111eb
	return z ^ (z >> 31)
}

// Mix derives a run seed from a batch seed, a profile number and a run index.
func Mix(seed uint64, a, b uint64) uint64 {
	x := seed ^ (a * 0xd6e8feb86659fd93) ^ (b * 0xca5a826395121157)
	return splitmix(&x)
}

// StartSearch begins a run whose choices are drawn from a PRNG seeded with seed and recorded.
func StartSearch(seed uint64) {
	tape = tapeT{active: true, rng: seed, vals: make([]uint32, 1<<12), hash: 1469598103934665603}
}

// StartReplay begins a run whose choices are read from vals; once vals is exhausted every
// further choice is 0 (the simplest alternative).
func StartReplay(vals []uint32) {
	v := make([]uint32, len(vals))
	for i := range vals {
		v[i] = vals[i]
	}
	tape = tapeT{active: true, replay: true, vals: v, n: len(v), hash: 1469598103934665603}
}

// Stop ends the run and returns the tape that describes it, the event hash, the number of
// choices made and how many of them were made past the end of a replayed tape.
func Stop() (vals []uint32, hash uint64, draws, exhausts int64) {
	t := tape
	tape = tapeT{}
	if t.replay {
		n := t.pos
		if n > t.n {
			n = t.n
		}
		return t.vals[:n], t.hash, t.draws, t.exhausts
	}
	return t.vals[:t.n], t.hash, t.draws, t.exhausts
}

// Active reports whether a run is in progress.
//
//go:norace
func Active() bool { return tape.active }

//go:norace
func mixHash(x uint64) {
	tape.hash = (tape.hash ^ x) * 1099511628211
}

// HashEvent folds a harness-level event (e.g. a digest of an operation result) into the run's
// event hash.  It never draws from the tape.
//
//go:norace
func HashEvent(x uint64) {
	if tape.active {
		mixHash(x ^ 0xabcdef)
	}
}

// Choose returns a value in [0,n).  It is the only source of nondeterminism in a run.
// 0 is always the simplest alternative.
//
//go:norace
func Choose(n int) int {
	if n <= 1 || !tape.active {
		return 0
	}
	tape.draws++
	var v uint32
	if tape.replay {
		if tape.pos < tape.n {
			v = tape.vals[tape.pos] % uint32(n)
		} else {
			tape.exhausts++
			v = 0
		}
		tape.pos++
	} else {
		v = uint32(splitmix(&tape.rng) % uint64(n))
		if tape.n == len(tape.vals) {
			nv := make([]uint32, 2*len(tape.vals))
			for i := 0; i < tape.n; i++ {
				nv[i] = tape.vals[i]
			}
			tape.vals = nv
		}
		tape.vals[tape.n] = v
		tape.n++
	}
	mixHash(uint64(n)<<32 | uint64(v))
	return int(v)
}

// Bias returns true with probability num/den, encoded so that tape value 0 means false.
//
//go:norace
func Bias(num, den int) bool {
	if num <= 0 {
		return false
	}
	v := Choose(den)
	return v >= den-num && v != 0
}

// ---------------------------------------------------------------------------------------------
// Tasks and scheduler
// ---------------------------------------------------------------------------------------------

// Strategy numbers.
const (
	StratSequential = iota // switch only at natural yield points (operation boundaries, reads, ...)
	StratWalk              // random walk over statement-level yields
	StratHotPark           // park before writes to possibly shared state, resume right after a peer touched it
	StratPCT               // probabilistic concurrency testing priorities
	StratSyncPark          // park only before statements that call sync / sync/atomic methods: the code's own shared words
	NumStrategies
	// StratTarget is never drawn: it is the directed schedule used to build a replayable witness
	// for a race report.  Tasks run one after the other; the Nth arrival at one of the TargetPark
	// sites parks that task, the next task runs until it has just executed a TargetPeer (or
	// TargetPark) statement, and the parked task resumes at once, making the two accesses adjacent.
	StratTarget = 100
)

// Natural yield kinds (negative site numbers).
const (
	SiteOpBoundary = -1
	SiteRead       = -2
	SiteWrite      = -3
	SiteSourceNext = -4
	SiteCallback   = -5
)

// CapExceeded is the panic value used to abort an operation that exceeded its logical step cap.
type CapExceeded struct{ Steps int64 }

type task struct {
	id       int
	sim      *sim
	wake     chan struct{}
	done     bool
	steps    int64
	curSite  int32
	prevSite int32

	opSteps    int64
	opCap      int64
	capHit     bool
	depth      int
	opMaxDepth int
	maxDepth   int
	lockDepth  int

	parked     bool
	parkSite   int32
	parkedAt   int64
	prio       int
	panicVal   interface{}
	panicStack string
}

// Config of one multi-task run.
type Config struct {
	Strategy  int
	GapScale  int   // walk: mean distance between preemption decisions (yields)
	ParkDen   int   // hot-park: park with probability 1/ParkDen at a hot write site
	PCTDepth  int   // pct: number of priority change points + 1
	PCTLen    int   // pct: estimated run length in yields, change points are drawn from [0,PCTLen)
	MaxYields int64 // whole-run cap; beyond it the run stops preempting and is marked Discard

	SyncResumeAny bool // sync-park: resume after any sync call of the peer, not only one on the same object

	TargetPark []int32
	TargetPeer []int32
	TargetNth  int
}

// SitesAt returns the yield sites of the statement that covers file:line: the sites on that line,
// or failing that the sites on the closest preceding line of the same file.
func SitesAt(file string, line int) []int32 {
	fi := -1
	for i, f := range FileNames {
		if f == file {
			fi = i
		}
	}
	if fi < 0 {
		return nil
	}
	best := int32(-1)
	for i := range SiteLine {
		if int(SiteFile[i]) == fi && int(SiteLine[i]) <= line && SiteLine[i] > best {
			best = SiteLine[i]
		}
	}
	var out []int32
	for i := range SiteLine {
		if int(SiteFile[i]) == fi && SiteLine[i] == best {
			out = append(out, int32(i))
		}
	}
	return out
}

//go:norace
func inSites(site int32, set []int32) bool {
	for i := 0; i < len(set); i++ {
		if set[i] == site {
			return true
		}
	}
	return false
}

// Stats of one multi-task run.
type Stats struct {
	Yields          int64
	Switches        int64
	NaturalSwitches int64
	StmtSwitches    int64
	HotSwitches     int64
	Parks           int64
	MidUpdateParks  int64
	SyncParks       int64
	DirectedResumes int64
	ParkTimeouts    int64
	Discard         bool
	SwitchHash      uint64
	Pairs           []uint32 // distinct (func(from)<<16 | func(to)) overlap pairs seen at switches
	MaxDepth        int
	TaskPanics      []string
	Tasks           int
}

type sim struct {
	cfg     Config
	tasks   [maxTasks]*task
	ntasks  int
	wg      sync.WaitGroup
	total   int64
	nextAt  int64
	parkedT *task
	st      Stats
	pairs   [pairSlots]uint32
	npairs  int
	pctAt   [8]int64
	pctN    int
	pctLow  int
	swHash  uint64
	parkIn  int64

	targetCount int
	targetDone  bool
}

const (
	maxTasks  = 64
	pairSlots = 1 << 12
)

var cur *task

// Hand-off channel operations happen between these two calls (see race_on.go / race_off.go).

//go:norace
func (s *sim) others(t *task, buf *[maxTasks]*task) int {
	n := 0
	for i := 0; i < s.ntasks; i++ {
		o := s.tasks[i]
		if o != t && !o.done {
			buf[n] = o
			n++
		}
	}
	return n
}

//go:norace
func (s *sim) addPair(a, b int32) {
	if a < 0 || b < 0 {
		return
	}
	key := uint32(a)<<16 | uint32(b)&0xffff | 1<<31
	h := (key * 2654435761) % pairSlots
	for i := 0; i < pairSlots; i++ {
		slot := (int(h) + i) % pairSlots
		if s.pairs[slot] == key {
			return
		}
		if s.pairs[slot] == 0 {
			if s.npairs < pairSlots-1 {
				s.pairs[slot] = key
				s.npairs++
			}
			return
		}
	}
}

//go:norace
func funcOfSite(site int32) int32 {
	if site < 0 || int(site) >= len(SiteFunc) {
		return -1
	}
	return SiteFunc[site]
}

//go:norace
func (s *sim) switchTo(t, next *task, site int32) {
	s.st.Switches++
	if site < 0 {
		s.st.NaturalSwitches++
	} else {
		s.st.StmtSwitches++
		if int(site) < len(SiteFlags) && SiteFlags[site]&(FlagHotW|FlagHotR) != 0 {
			s.st.HotSwitches++
		}
	}
	x := uint64(t.id)<<48 ^ uint64(next.id)<<40 ^ uint64(uint32(site))<<8 ^ uint64(s.total)*0x9e3779b97f4a7c15
	mixHash(x)
	s.swHash = (s.swHash ^ (uint64(t.id)<<40 | uint64(next.id)<<32 | uint64(uint32(site)))) * 1099511628211
	s.addPair(funcOfSite(t.curSite), funcOfSite(next.curSite))
	cur = next
	raceDisable()
	next.wake <- struct{}{}
	<-t.wake
	raceEnable()
}

// pickAny chooses among all runnable tasks other than t (t may be nil or done).
//
//go:norace
func (s *sim) pickAny(t *task) *task {
	var buf [maxTasks]*task
	n := s.others(t, &buf)
	if n == 0 {
		return nil
	}
	if s.cfg.Strategy == StratPCT {
		best := buf[0]
		for i := 1; i < n; i++ {
			if buf[i].prio > best.prio {
				best = buf[i]
			}
		}
		return best
	}
	if s.cfg.Strategy == StratTarget {
		// prefer a task that is not parked, lowest id first
		for i := 0; i < n; i++ {
			if !buf[i].parked {
				return buf[i]
			}
		}
		return buf[0]
	}
	return buf[Choose(n)]
}

//go:norace
func (s *sim) drawGap() {
	sc := s.cfg.GapScale
	if sc <= 0 {
		s.nextAt = 1 << 62
		return
	}
	v := Choose(2*sc + 1)
	if v == 0 {
		s.nextAt = 1 << 62
	} else {
		s.nextAt = s.total + int64(v)
	}
}

// drawPark decides after how many further hot write sites the next park happens (0 on the tape:
// never again).
//
//go:norace
func (s *sim) drawPark() {
	v := Choose(2*s.cfg.ParkDen + 1)
	if v == 0 {
		s.parkIn = -1
	} else {
		s.parkIn = int64(v)
	}
}

// drawSyncPark: the next park happens at the v-th statement from now that calls a sync or
// sync/atomic method (0 on the tape: never again).  There are few such statements in a run, so the
// range is small.
//
//go:norace
func (s *sim) drawSyncPark() {
	v := Choose(13)
	if v == 0 {
		s.parkIn = -1
	} else {
		s.parkIn = int64(v)
	}
}

//go:norace
func noGroups(site int32) bool {
	return site < 0 || int(site) >= len(SiteGroups) || len(SiteGroups[site]) == 0
}

//go:norace
func groupsIntersect(a, b int32) bool {
	if a < 0 || b < 0 || int(a) >= len(SiteGroups) || int(b) >= len(SiteGroups) {
		return false
	}
	ga, gb := SiteGroups[a], SiteGroups[b]
	for i := 0; i < len(ga); i++ {
		for j := 0; j < len(gb); j++ {
			if ga[i] == gb[j] {
				return true
			}
		}
	}
	return false
}

// decide is called at every yield of a task that holds no lock.
//
//go:norace
func (s *sim) decide(t *task, site int32) {
	if s.st.Discard {
		return
	}
	// A parked peer is resumed as soon as this task has just executed a statement touching the
	// same group of possibly shared state, or when it has waited too long.
	if p := s.parkedT; p != nil && p != t {
		hit := false
		if s.cfg.Strategy == StratTarget {
			hit = inSites(t.prevSite, s.cfg.TargetPeer) || inSites(t.prevSite, s.cfg.TargetPark)
		} else {
			hit = groupsIntersect(t.prevSite, p.parkSite)
			if !hit && s.cfg.Strategy == StratSyncPark && (s.cfg.SyncResumeAny || noGroups(p.parkSite)) {
				// resume after the peer's next sync / sync/atomic call, whatever it is called on
				ps := t.prevSite
				hit = ps >= 0 && int(ps) < len(SiteFlags) && SiteFlags[ps]&FlagSync != 0
			}
		}
		if hit {
			s.parkedT = nil
			p.parked = false
			s.st.DirectedResumes++
			s.switchTo(t, p, site)
			return
		}
		if s.cfg.Strategy != StratTarget && s.total-p.parkedAt > 20000 {
			s.parkedT = nil
			p.parked = false
			s.st.ParkTimeouts++
		}
	}
	switch s.cfg.Strategy {
	case StratTarget:
		if site >= 0 && s.parkedT == nil && !s.targetDone && inSites(site, s.cfg.TargetPark) {
			s.targetCount++
			if s.targetCount == s.cfg.TargetNth {
				var buf [maxTasks]*task
				if n := s.others(t, &buf); n > 0 {
					s.targetDone = true
					t.parked = true
					t.parkSite = site
					t.parkedAt = s.total
					s.parkedT = t
					s.st.Parks++
					s.switchTo(t, buf[0], site)
				}
			}
		}
	case StratSequential:
		if site < 0 {
			s.natural(t, site)
		}
	case StratWalk:
		if site < 0 {
			s.natural(t, site)
			return
		}
		if s.total >= s.nextAt {
			s.preempt(t, site)
			s.drawGap()
		}
	case StratHotPark:
		if site < 0 {
			s.natural(t, site)
			return
		}
		if s.parkedT == nil && int(site) < len(SiteFlags) && SiteFlags[site]&FlagHotW != 0 {
			s.parkIn--
			// a write right after another write of the same function is the middle of a multi-word
			// update: such sites are four times as likely to be chosen
			if p := t.prevSite; s.parkIn > 0 && p >= 0 && int(p) < len(SiteFlags) && SiteFlags[p]&FlagHotW != 0 && SiteFunc[p] == SiteFunc[site] {
				s.parkIn -= 3
				if s.parkIn < 0 {
					s.parkIn = 0
				}
				if s.parkIn == 0 {
					s.st.MidUpdateParks++
				}
			}
			if s.parkIn == 0 {
				s.drawPark()
				var buf [maxTasks]*task
				n := s.others(t, &buf)
				if n > 0 {
					next := buf[Choose(n)]
					t.parked = true
					t.parkSite = site
					t.parkedAt = s.total
					s.parkedT = t
					s.st.Parks++
					s.switchTo(t, next, site)
					return
				}
			}
		}
		if s.total >= s.nextAt {
			s.preempt(t, site)
			s.drawGap()
		}
	case StratSyncPark:
		if site < 0 {
			s.natural(t, site)
			return
		}
		if s.parkedT == nil && int(site) < len(SiteFlags) && SiteFlags[site]&FlagSync != 0 {
			s.parkIn--
			if s.parkIn == 0 {
				s.drawSyncPark()
				var buf [maxTasks]*task
				if n := s.others(t, &buf); n > 0 {
					next := buf[Choose(n)]
					t.parked = true
					t.parkSite = site
					t.parkedAt = s.total
					s.parkedT = t
					s.st.Parks++
					s.st.SyncParks++
					s.switchTo(t, next, site)
					return
				}
			}
		}
	case StratPCT:
		for i := 0; i < s.pctN; i++ {
			if s.pctAt[i] == s.total {
				s.pctLow--
				t.prio = s.pctLow
			}
		}
		// run the highest-priority runnable task
		var buf [maxTasks]*task
		n := s.others(t, &buf)
		best := t
		for i := 0; i < n; i++ {
			if buf[i].prio > best.prio {
				best = buf[i]
			}
		}
		if best != t {
			s.switchTo(t, best, site)
		}
	}
}

//go:norace
func (s *sim) natural(t *task, site int32) {
	var buf [maxTasks]*task
	n := s.others(t, &buf)
	if n == 0 {
		return
	}
	k := Choose(n + 1)
	if k == 0 {
		return
	}
	s.switchTo(t, buf[k-1], site)
}

//go:norace
func (s *sim) preempt(t *task, site int32) {
	var buf [maxTasks]*task
	n := s.others(t, &buf)
	if n == 0 {
		return
	}
	k := Choose(n + 1)
	if k == 0 {
		return
	}
	s.switchTo(t, buf[k-1], site)
}

// SyncSiteHits counts executed statements that call a sync or sync/atomic method.
var SyncSiteHits int64

// Yield is inserted before every statement of the code under test.
//
//go:norace
func Yield(site int32) {
	t := cur
	if t == nil {
		return
	}
	t.steps++
	t.opSteps++
	t.prevSite = t.curSite
	t.curSite = site
	if site >= 0 && int(site) < len(SiteFlags) && SiteFlags[site]&FlagSync != 0 {
		SyncSiteHits++
	}
	if t.opCap > 0 && t.opSteps > t.opCap {
		// Every further statement panics again until OpEnd: code on the way out may swallow a
		// panic (fmt recovers panics raised inside a String method — Trace prints tokens with
		// %q), and a guard that fires only once would then be gone for the rest of the operation.
		t.capHit = true
		panic(CapExceeded{t.opSteps})
	}
	s := t.sim
	if s == nil {
		return
	}
	s.total++
	if s.total > s.cfg.MaxYields && !s.st.Discard {
		s.st.Discard = true
	}
	if t.lockDepth > 0 {
		return
	}
	s.decide(t, site)
}

// YieldPoint is a natural yield point of the harness (operation boundary, Read, Write, source
// lexer Next, callback entry).
//
//go:norace
func YieldPoint(kind int32) { Yield(kind) }

// Enter / Exit maintain the logical recursion depth of the current task.
//
//go:norace
func Enter() {
	t := cur
	if t == nil {
		return
	}
	t.depth++
	if t.depth > t.opMaxDepth {
		t.opMaxDepth = t.depth
		if t.depth > t.maxDepth {
			t.maxDepth = t.depth
		}
	}
}

//go:norace
func Exit() {
	t := cur
	if t == nil {
		return
	}
	t.depth--
}

// LockDepth brackets critical sections: while it is non-zero the scheduler never switches away,
// so a parked task never holds a lock.
//
//go:norace
func LockDepth(d int) {
	t := cur
	if t == nil {
		return
	}
	t.lockDepth += d
}

// Deadlock is the panic value raised when the code under test blocks on a mutex that, in a
// simulation, nobody can release any more (it was leaked on some return path, or is re-entered).
type Deadlock struct{ At string }

// MutexLock replaces x.Lock() / x.RLock() in the code under test.
//
//go:norace
func MutexLock(lock func(), try func() bool, at string) {
	t := cur
	if t == nil {
		lock()
		return
	}
	if !try() {
		panic(Deadlock{at})
	}
	t.lockDepth++
}

// OpBegin resets the per-operation counters of the current task and sets its step cap (0 = none).
//
//go:norace
func OpBegin(stepCap int64) {
	t := cur
	if t == nil {
		return
	}
	t.opSteps = 0
	t.opCap = stepCap
	t.capHit = false
	t.opMaxDepth = t.depth
}

// OpEnd returns the yields executed since OpBegin, the deepest logical recursion reached
// relative to the depth at OpBegin, and whether the step cap was hit.  It also repairs the
// depth counter after a panic unwound instrumented frames without running their Exit calls.
//
//go:norace
func OpEnd(baseDepth int) (steps int64, depth int, capHit bool) {
	t := cur
	if t == nil {
		return 0, 0, false
	}
	steps, depth, capHit = t.opSteps, t.opMaxDepth-baseDepth, t.capHit
	t.opCap = 0
	t.depth = baseDepth
	t.lockDepth = 0
	return
}

// Depth returns the current logical depth of the running task.
//
//go:norace
func Depth() int {
	if cur == nil {
		return 0
	}
	return cur.depth
}

// TaskID returns the id of the running task, or -1 outside a simulation.
//
//go:norace
func TaskID() int {
	if cur == nil {
		return -1
	}
	return cur.id
}

// RunInline runs f on the calling goroutine as a single pseudo-task: yields are counted, depth
// is tracked, step caps are enforced, nothing is scheduled.
func RunInline(f func()) {
	prev := cur
	t := &task{id: 0, curSite: -1, prevSite: -1}
	cur = t
	defer func() { cur = prev }()
	f()
}

func taskMain(s *sim, t *task, f func()) {
	raceDisable()
	<-t.wake
	raceEnable()
	func() {
		defer func() {
			if r := recover(); r != nil {
				t.panicVal = r
			}
		}()
		f()
	}()
	finishTask(s, t)
	s.wg.Done()
}

//go:norace
func finishTask(s *sim, t *task) {
	t.done = true
	t.lockDepth = 0
	if s.parkedT == t {
		s.parkedT = nil
	}
	next := s.pickAny(t)
	if next == nil {
		cur = nil
		return
	}
	if next.parked {
		next.parked = false
		if s.parkedT == next {
			s.parkedT = nil
		}
	}
	mixHash(uint64(t.id)<<48 ^ uint64(next.id)<<40 ^ 0xfeed)
	s.swHash = (s.swHash ^ (uint64(t.id)<<40 | uint64(next.id)<<32 | 0xffff)) * 1099511628211
	cur = next
	raceDisable()
	next.wake <- struct{}{}
	raceEnable()
}

//go:norace
func (s *sim) newTask() *task {
	t := &task{id: s.ntasks, sim: s, wake: make(chan struct{}, 1), curSite: -1, prevSite: -1}
	s.tasks[s.ntasks] = t
	s.ntasks++
	return t
}

// Go registers a goroutine started by the code under test as a simulator task.
func Go(f func()) {
	t := cur
	if t == nil || t.sim == nil {
		go f()
		return
	}
	s := t.sim
	if s.ntasks >= maxTasks {
		panic("simrt: too many tasks")
	}
	nt := s.newTask()
	nt.prio = -1000 - nt.id
	s.wg.Add(1)
	go taskMain(s, nt, f)
}

// RunTasks runs fns as tasks under the scheduler and returns when all of them (and every task
// they spawned through Go) have finished.  watchdog bounds the real time the whole run may take;
// when it expires Stalled is reported (a primitive the simulator does not model is blocking).
func RunTasks(cfg Config, fns []func(), watchdog time.Duration) (Stats, bool) {
	if len(fns) == 0 {
		return Stats{}, false
	}
	if cfg.MaxYields <= 0 {
		cfg.MaxYields = 2000000
	}
	if cfg.ParkDen < 2 {
		cfg.ParkDen = 2
	}
	s := &sim{cfg: cfg, swHash: 1469598103934665603}
	for range fns {
		s.newTask()
	}
	// PCT priorities and change points.
	if cfg.Strategy == StratPCT {
		n := len(fns)
		perm := make([]int, n)
		for i := range perm {
			perm[i] = i
		}
		for i := n - 1; i > 0; i-- {
			j := Choose(i + 1)
			perm[i], perm[i-j] = perm[i-j], perm[i]
		}
		for i := 0; i < n; i++ {
			s.tasks[i].prio = perm[i] + 1
		}
		d := cfg.PCTDepth
		if d > 8 {
			d = 8
		}
		for i := 0; i < d-1; i++ {
			s.pctAt[s.pctN] = int64(Choose(cfg.PCTLen))
			s.pctN++
		}
	}
	s.wg.Add(len(fns))
	for i, f := range fns {
		go taskMain(s, s.tasks[i], f)
	}
	var first *task
	if cfg.Strategy == StratPCT {
		first = s.pickAny(nil)
	} else if cfg.Strategy == StratTarget {
		first = s.tasks[0]
	} else {
		first = s.tasks[Choose(len(fns))]
	}
	if cfg.Strategy == StratWalk || cfg.Strategy == StratHotPark {
		s.drawGap()
	}
	if cfg.Strategy == StratHotPark {
		s.drawPark()
	}
	if cfg.Strategy == StratSyncPark {
		s.drawSyncPark()
	}
	cur = first
	first.wake <- struct{}{}
	stalled := false
	if watchdog > 0 {
		done := make(chan struct{})
		go func() { s.wg.Wait(); close(done) }()
		select {
		case <-done:
		case <-time.After(watchdog):
			stalled = true
		}
	} else {
		s.wg.Wait()
	}
	if stalled {
		return s.st, true
	}
	cur = nil
	st := s.st
	st.Yields = s.total
	st.SwitchHash = s.swHash
	st.Tasks = s.ntasks
	for i := 0; i < pairSlots; i++ {
		if s.pairs[i] != 0 {
			st.Pairs = append(st.Pairs, s.pairs[i]&^(1<<31))
		}
	}
	for i := 0; i < s.ntasks; i++ {
		t := s.tasks[i]
		if t.maxDepth > st.MaxDepth {
			st.MaxDepth = t.maxDepth
		}
		if t.panicVal != nil {
			st.TaskPanics = append(st.TaskPanics, fmt.Sprintf("task %d: %v", t.id, t.panicVal))
		}
	}
	return st, false
}

// ---------------------------------------------------------------------------------------------
// Controlled map iteration order
// ---------------------------------------------------------------------------------------------

// Ordered is the set of key types whose order is the same in every process.
type Ordered interface {
	~int | ~int8 | ~int16 | ~int32 | ~int64 | ~uint | ~uint8 | ~uint16 | ~uint32 | ~uint64 | ~uintptr | ~float32 | ~float64 | ~string
}

// ShuffleMaps enables tape-driven permutation of map iteration orders (otherwise sorted).
var ShuffleMaps bool

// MapRanges counts executions of controlled map ranges; MapShuffles those that were permuted.
var MapRanges, MapShuffles int64

// MapOrder returns the keys of m sorted and then, inside a run with ShuffleMaps set, permuted by
// tape-driven choices (all-zero choices leave the sorted order).
func MapOrder[M ~map[K]V, K Ordered, V any](m M) []K {
	keys := make([]K, 0, len(m))
	for k := range m {
		keys = append(keys, k)
	}
	// insertion sort: key sets are tiny
	for i := 1; i < len(keys); i++ {
		for j := i; j > 0 && keys[j] < keys[j-1]; j-- {
			keys[j], keys[j-1] = keys[j-1], keys[j]
		}
	}
	countMapRange(len(keys))
	if shuffleOn() && len(keys) > 1 {
		if Choose(4) == 1 {
			countMapShuffle()
			for i := len(keys) - 1; i > 0; i-- {
				j := Choose(i + 1)
				keys[i], keys[i-j] = keys[i-j], keys[i]
			}
		}
	}
	return keys
}

//go:norace
func shuffleOn() bool { return tape.active && ShuffleMaps }

//go:norace
func countMapRange(n int) { MapRanges++ }

//go:norace
func countMapShuffle() { MapShuffles++ }

// UncontrolledMapRanges counts executions of map ranges the instrumenter could not canonicalise.
var UncontrolledMapRanges int64

//go:norace
func UncontrolledMapRange() { UncontrolledMapRanges++ }

// ---------------------------------------------------------------------------------------------
// Probe counters (norace so tasks may bump them without creating detector-visible accesses)
// ---------------------------------------------------------------------------------------------

const MaxCounters = 256

var counters [MaxCounters]int64

//go:norace
func Count(i int) {
	if i >= 0 && i < MaxCounters {
		counters[i]++
	}
}

//go:norace
func CountN(i int, n int64) {
	if i >= 0 && i < MaxCounters {
		counters[i] += n
	}
}

//go:norace
func Counter(i int) int64 { return counters[i] }

//go:norace
func SetMax(i int, v int64) {
	if i >= 0 && i < MaxCounters && v > counters[i] {
		counters[i] = v
	}
}
