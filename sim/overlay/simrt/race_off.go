//go:build !race

package simrt

// RaceBuild reports whether the binary carries the race detector.
const RaceBuild = false

func raceDisable() {}
func raceEnable()  {}
