package simrt

// Site tables.  This file is overwritten by the instrumenter; the version in the overlay is the
// empty table used by an uninstrumented (degraded) build.

const (
	FlagHotW            = 1 << iota // statement may write possibly shared state
	FlagHotR                        // statement may read possibly shared state
	FlagUncontrolledMap             // map range that could not be canonicalised
	FlagSync                        // statement calls a method of a sync or sync/atomic value
)

var SiteFlags []uint8
var SiteFunc []int32
var SiteGroups [][]int32
var FuncNames []string
var SiteLine []int32
var SiteFile []int16
var FileNames []string
var Instrumented = false
