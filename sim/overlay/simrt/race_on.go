//go:build race

package simrt

import "runtime"

// RaceBuild reports whether the binary carries the race detector.
const RaceBuild = true

// raceDisable / raceEnable hide the scheduler's hand-off from the race detector: between them the
// current goroutine's synchronisation events are ignored, so the channel operations that park one
// task and release the next create no happens-before edge.
//
//go:norace
func raceDisable() { runtime.RaceDisable() }

//go:norace
func raceEnable() { runtime.RaceEnable() }
