package main

import (
	"encoding/json"
	"fmt"
	"io"
	"os"
	"reflect"
	"strings"
	"text/scanner"

	"github.com/alecthomas/participle/v2"
	"github.com/alecthomas/participle/v2/lexer"
	"github.com/alecthomas/participle/v2/lexer/verifshim"
)

// generatedDefs is filled by genhook.go (written by the driver) with the lexers the working
// tree's generator produced from /verif/sim/fixtures/*.json.
var generatedDefs = map[string]lexer.Definition{}

// PH is a parser handle that hides the grammar type parameter.
type PH interface {
	ParseString(filename, s string, opts ...participle.ParseOption) (interface{}, error)
	ParseBytes(filename string, b []byte, opts ...participle.ParseOption) (interface{}, error)
	Parse(filename string, r io.Reader, opts ...participle.ParseOption) (interface{}, error)
	ParseFromLexer(pl *lexer.PeekingLexer, opts ...participle.ParseOption) (interface{}, error)
	Lex(filename string, r io.Reader) ([]lexer.Token, error)
	Lexer() lexer.Definition
	String() string
	Elided() []lexer.TokenType
}

type ph[G any] struct {
	p     *participle.Parser[G]
	elide []string
}

func (h *ph[G]) ParseString(f, s string, o ...participle.ParseOption) (interface{}, error) {
	return h.p.ParseString(f, s, o...)
}
func (h *ph[G]) ParseBytes(f string, b []byte, o ...participle.ParseOption) (interface{}, error) {
	return h.p.ParseBytes(f, b, o...)
}
func (h *ph[G]) Parse(f string, r io.Reader, o ...participle.ParseOption) (interface{}, error) {
	return h.p.Parse(f, r, o...)
}
func (h *ph[G]) ParseFromLexer(pl *lexer.PeekingLexer, o ...participle.ParseOption) (interface{}, error) {
	return h.p.ParseFromLexer(pl, o...)
}
func (h *ph[G]) Lex(f string, r io.Reader) ([]lexer.Token, error) { return h.p.Lex(f, r) }
func (h *ph[G]) Lexer() lexer.Definition                          { return h.p.Lexer() }
func (h *ph[G]) String() string                                   { return h.p.String() }
func (h *ph[G]) Elided() []lexer.TokenType {
	syms := h.p.Lexer().Symbols()
	var out []lexer.TokenType
	for _, e := range h.elide {
		out = append(out, syms[e])
	}
	return out
}

func mustPH[G any](elide []string, opts ...participle.Option) PH {
	if len(elide) > 0 {
		opts = append(opts, participle.Elide(elide...))
	}
	p, err := participle.Build[G](opts...)
	if err != nil {
		panic(fmt.Sprintf("fixture grammar %T does not build: %v", *new(G), err))
	}
	return &ph[G]{p: p, elide: elide}
}

// rootTokens returns the Tokens field of the root node of an AST, if it has one.
func rootTokens(ast interface{}) ([]lexer.Token, bool) {
	if isNil(ast) {
		return nil, false
	}
	v := reflect.ValueOf(ast)
	for v.Kind() == reflect.Ptr {
		v = v.Elem()
	}
	if v.Kind() != reflect.Struct {
		return nil, false
	}
	f := v.FieldByName("Tokens")
	if !f.IsValid() {
		return nil, false
	}
	t, ok := f.Interface().([]lexer.Token)
	return t, ok
}

// ---------------------------------------------------------------------------------------------
// documents
// ---------------------------------------------------------------------------------------------

type doc struct {
	name  string
	text  string
	valid bool
	// flat unit: text[unitAt:unitAt+unitLen] may be repeated any number of times in place and the
	// document stays valid and does not nest deeper
	unitAt, unitLen int
	// nested specimen generator: returns a valid document nested d levels deep
	nest func(d int) string
	// for AllowTrailing / resumption: statements of a one-statement-per-parse grammar
	stmts []string
	// the last statement explicitly matches every trailing elided token: afterwards the caller's
	// lexer must be at EOF in raw terms too
	stmtsRawEOF bool
	// the document makes user code return a plain (non-participle) error
	foreignErr bool
}

func flatDoc(name, prefix, unit, suffix string) doc {
	return doc{name: name, text: prefix + unit + suffix, valid: true, unitAt: len(prefix), unitLen: len(unit)}
}

// buildOpts varies how a world's parser is built.
type buildOpts struct {
	lookahead int  // 0: grammar default
	narrow    bool // hide LexString / LexBytes behind a definition that only offers Lex
	mapped    bool // add a counting Map mapper (wraps the definition in participle's mapping wrapper)
	generated bool // use the generated variant of the lexer where the world has one
	wrap      func(lexer.Definition) lexer.Definition
}

type world struct {
	name            string
	docs            []doc
	build           func(o buildOpts) PH
	lexerKind       string // "text/scanner", "stateful", "generated"
	hasGen          func() bool
	junk            string               // lexically valid suffix that no document can continue with
	perRunDelim     bool                 // documents contain {D0} {D1} {D2} placeholders for per-run delimiters
	stmtBuild       func(o buildOpts) PH // one-statement grammar for the resumption clause (optional)
	fixedLookaheads []int                // restrict the lookahead variants (nil: all)
	verbatim        bool                 // documents are used as they are: no content faults are derived from them
	hasCallbacks    bool
	// altBuild builds the SAME grammar type with another option set (another ParseTypeWith
	// function, another Union registration); used by the build-order clause of C09
	altBuild func(o buildOpts) PH
}

func (w *world) lookaheads() []int {
	if w.fixedLookaheads != nil {
		return w.fixedLookaheads
	}
	return []int{0, 1, 2, participle.MaxLookahead, -1}
}

func applyCommon(o buildOpts, def lexer.Definition, opts []participle.Option) []participle.Option {
	if def == nil && (o.narrow || o.wrap != nil) {
		def = lexer.TextScannerLexer
	}
	if o.narrow {
		def = narrowDef{def}
	}
	if o.wrap != nil {
		def = o.wrap(def)
	}
	if def != nil {
		opts = append(opts, participle.Lexer(def))
	}
	if o.lookahead != 0 {
		opts = append(opts, participle.UseLookahead(o.lookahead))
	}
	if o.mapped {
		opts = append(opts, participle.Map(func(t lexer.Token) (lexer.Token, error) {
			// a pure, deterministic mapper over every token; it does not commute with the per-type
			// mappers (Upper turns "y" into "Y", which this one leaves alone), so the order in which
			// participle applies them shows in the result
			if len(t.Value) > 0 && t.Value[0] == '\x01' {
				t.Value = t.Value[1:]
			}
			if t.Value == "y" {
				t.Value = "yy"
			}
			return t, nil
		}))
	}
	return opts
}

// ---------------------------------------------------------------------------------------------
// W-ini: text/scanner lexer (reads incrementally), Unquote, Union, Elide("Comment")
// ---------------------------------------------------------------------------------------------

type iniFile struct {
	Pos        lexer.Position
	Properties []*iniProp    `@@*`
	Sections   []*iniSection `@@*`
	EndPos     lexer.Position
	Tokens     []lexer.Token
}

type iniSection struct {
	Pos        lexer.Position
	Doc        []string   `@Comment*`
	Name       string     `"[" @Ident "]"`
	Properties []*iniProp `@@*`
	EndPos     lexer.Position
}

type iniProp struct {
	Pos   lexer.Position
	Key   string      `@Ident`
	Op    lexer.Token `@( "+"? "=" )`
	Value iniValue    `@@`
}

type iniValue interface{ iniv() }

type iniString struct {
	S string `@(String | RawString | Char)`
}
type iniNumber struct {
	N float64 `@(Float | Int)`
}
type iniWord struct {
	W string `@Ident`
}
type iniList struct {
	Items []iniValue `"{" ( @@ ( "," @@ )* )? "}"`
}

func (iniString) iniv() {}
func (iniNumber) iniv() {}
func (iniWord) iniv()   {}
func (iniList) iniv()   {}

func commentScanner() lexer.Definition {
	return lexer.NewTextScannerLexer(func(s *scanner.Scanner) {
		s.Mode = scanner.ScanIdents | scanner.ScanFloats | scanner.ScanChars | scanner.ScanStrings | scanner.ScanRawStrings | scanner.ScanComments
	})
}

var worldIni = &world{
	name: "ini", lexerKind: "text/scanner", junk: "\n] ]",
	build: func(o buildOpts) PH {
		opts := applyCommon(o, commentScanner(), nil)
		opts = append(opts, participle.Unquote("String", "RawString", "Char"),
			participle.Union[iniValue](iniString{}, iniNumber{}, iniWord{}, iniList{}))
		return mustPH[iniFile]([]string{"Comment"}, opts...)
	},
	docs: []doc{
		{name: "basic", valid: true, text: "a = \"a\"\nb = 123\n\n// A comment\n[numbers]\na = 10.3\nb = 20\n\n/* Another\n comment */\n[strings]\na = \"\\\"quoted\\\"\"\nb = `raw\nstring`\nc = 'x'\n"},
		{name: "unicode", valid: true, text: "grüße = \"zażółć gęślą jaźń\" // käse\n[данные]\nключ = \"значение ✓\"\n名前 = `値`\r\nπ = 3.14159\r\n"},
		{name: "lists", valid: true, text: "xs = {1, 2, {3, \"four\", five}, {}}\n[s]\nys = {{{{}}}}\nz = {a, b}\n"},
		flatDoc("flat-props", "k0 = 0\n", "k = 1\n", "[end]\nz = \"z\"\n"),
		flatDoc("flat-sections", "", "[s]\na = 1\n", ""),
		flatDoc("flat-list", "xs = {0", ", 1", "}\n"),
		{name: "empty", valid: true, text: ""},
		{name: "only-comment", valid: true, text: "// nothing here\n"},
		{name: "nest", valid: true, text: "v = {{{1}}}\n", nest: func(d int) string {
			return "v = " + strings.Repeat("{", d) + "1" + strings.Repeat("}", d) + "\n"
		}},
		{name: "append", valid: true, text: "a = 1\na += 2 // more\n// doc one\n/* doc two */\n[s] // trailing\nb += {x}\n// at the very end"},
		{name: "missing-value", valid: false, text: "a = \n[b]\nc = 1\n"},
		{name: "missing-op", valid: false, text: "a 5\n"},
		{name: "bad-section", valid: false, text: "[sec\nx = 1\n"},
	},
}

// ---------------------------------------------------------------------------------------------
// W-expr: text/scanner lexer, recursion with brackets, lookahead-sensitive alternatives
// ---------------------------------------------------------------------------------------------

type exFile struct {
	Pos    lexer.Position
	Stmts  []*exStmt `( @@ ";" )*`
	EndPos lexer.Position
	Tokens []lexer.Token
}

type exStmt struct {
	Pos    lexer.Position
	Let    *exLet  `  @@`
	Raw    *exRaw  `| @@`
	Expr   *exExpr `| @@`
	EndPos lexer.Position
}

type exLet struct {
	Name  string  `"LET" @Ident "="`
	Val   *exExpr `(?! ";" | "LET" ) @@`
	Where *exExpr `( (?= "WHERE" ) "WHERE" @@ )?`
}

// exRaw captures any run of tokens up to the statement terminator (token negation).
type exRaw struct {
	Words []string `"RAW" @!( ";" | ")" )+`
}

type exExpr struct {
	Left *exTerm `@@`
	Rest []*exOp `@@*`
}

type exOp struct {
	Op    string  `@("+" | "-" | "*" | "/" | "<" | ">")`
	Right *exTerm `@@`
}

type exTerm struct {
	Pos  lexer.Position
	Num  *float64 `  @(Float | Int)`
	Str  *string  `| @String`
	Call *exCall  `| @@`
	Var  *string  `| @Ident`
	Sub  *exExpr  `| "(" @@ ")"`
	Neg  *exTerm  `| "-" @@`
}

type exCall struct {
	Name string    `@Ident "("`
	Args []*exExpr `( @@ ( "," @@ )* )? ")"`
}

var worldExpr = &world{
	name: "expr", lexerKind: "text/scanner", junk: "\n) )",
	build: func(o buildOpts) PH {
		opts := applyCommon(o, commentScanner(), nil)
		opts = append(opts, participle.Unquote("String"), participle.Upper("Ident"))
		return mustPH[exFile]([]string{"Comment"}, opts...)
	},
	stmtBuild: func(o buildOpts) PH {
		opts := applyCommon(o, commentScanner(), nil)
		opts = append(opts, participle.Unquote("String"), participle.Upper("Ident"))
		return mustPH[exOneStmt]([]string{"Comment"}, opts...)
	},
	docs: []doc{
		{name: "mixed", valid: true, text: "let x = 1 + 2 * (3 - y);\nf(x, g(1, \"two\"), -3.5);\nlet é = \"ünï\" + x;\n",
			stmts: []string{"let x = 1 + 2 * (3 - y);", "f(x, g(1, \"two\"), -3.5);", "let é = \"ünï\" + x;"}},
		{name: "tight-minus", valid: true, text: "let d = x-y-1;\nfoo-bar(a-b);\n"},
		{name: "calls", valid: true, text: "a();b(c());d(e, f(g(h)));\n", stmts: []string{"a();", "b(c());", "d(e, f(g(h)));"}},
		{name: "doc-comments", valid: true, text: "// lead\na(); /* c */ b();\n", stmts: []string{"a();", "/* c */ b();", "// x\n// y\nlet v = 1;", "// the last chunk is comments only\n/* and another */"}, stmtsRawEOF: true},
		{name: "raw-where", valid: true, text: "raw a + ( b 1.5 \"s\";\nlet v = x * 2 where v > 0;\nraw z;", stmts: []string{"raw a + ( b 1.5 \"s\";", "let v = x * 2 where v > 0;", "raw z;"}},
		{name: "commented", valid: true, text: "/* lead */ raw a /* mid */ b // tail\n;\nlet v = /* c */ 1 where /* d */ v > 0; // end\nf( /* no args */ ); // last"},
		{name: "raw-elided-tail", valid: false, text: "raw a b // no terminator"},
		{name: "raw-empty", valid: true, text: "raw ;"},
		{name: "raw-paren", valid: false, text: "raw a ) b;"},
		{name: "let-empty", valid: false, text: "let x = ;"},
		{name: "let-let", valid: false, text: "let x = let;"},
		flatDoc("flat-sum", "1", " + 1", ";\n"),
		flatDoc("flat-stmts", "", "x;", ""),
		flatDoc("flat-args", "f(0", ", 1", ");"),
		{name: "nest", valid: true, text: "((1));", nest: func(d int) string {
			return strings.Repeat("(", d) + "1" + strings.Repeat(")", d) + ";"
		}},
		{name: "nest-neg", valid: true, text: "- - 1;", nest: func(d int) string { return strings.Repeat("- ", d) + "1;" }},
		{name: "nest-call", valid: true, text: "f(f(1));", nest: func(d int) string {
			return strings.Repeat("f(", d) + "1" + strings.Repeat(")", d) + ";"
		}},
		{name: "empty", valid: true, text: ""},
		{name: "unbalanced", valid: false, text: "let x = (1 + (2 * 3);\n"},
		{name: "dangling-op", valid: false, text: "1 + ;"},
	},
}

// exOneStmt: leading comments are matched explicitly (they are elided otherwise); a chunk may
// consist of comments only.
type exOneStmt struct {
	Pos  lexer.Position
	Doc  []string `@Comment*`
	Stmt *exStmt  `( @@ ";" )?`
}

// ---------------------------------------------------------------------------------------------
// W-heredoc: stateful lexer with Push / Pop / Include and a \1 back-reference (shared cache)
// ---------------------------------------------------------------------------------------------

func heredocRules() lexer.Rules {
	return lexer.Rules{
		"Root": {
			{Name: "Heredoc", Pattern: `<<(\w+\b)`, Action: lexer.Push("Heredoc")},
			{Name: "String", Pattern: `"(?:\\.|[^"])*"`},
			{Name: "Comment", Pattern: `#[^\n]*`},
			{Name: "remark", Pattern: `//[^\n]*`},
			{Name: "Punct", Pattern: `[;=]`},
			lexer.Include("Common"),
		},
		"Heredoc": {
			{Name: "End", Pattern: `\b\1\b`, Action: lexer.Pop()},
			lexer.Include("Common"),
		},
		"Common": {
			{Name: "whitespace", Pattern: `\s+`},
			{Name: "Ident", Pattern: `[\p{L}\p{N}_]+`},
		},
	}
}

type hdFile struct {
	Pos    lexer.Position
	Stmts  []*hdStmt `@@*`
	EndPos lexer.Position
	Tokens []lexer.Token
}

type hdStmt struct {
	Pos    lexer.Position
	Assign *hdAssign `( @@`
	Doc    *hdDoc    `| @@ ) ( ";" | EOF )?`
	EndPos lexer.Position
}

type hdAssign struct {
	Name string `@Ident "="`
	Val  string `@(String | Ident)`
}

type hdDoc struct {
	Start string   `@Heredoc`
	Words []string `@Ident*`
	End   string   `@End`
}

var worldHeredoc = &world{
	name: "heredoc", lexerKind: "stateful", junk: "\n= =", perRunDelim: true,
	build: func(o buildOpts) PH {
		def, err := lexer.New(heredocRules())
		if err != nil {
			panic(err)
		}
		opts := applyCommon(o, def, nil)
		if o.lookahead == 0 {
			opts = append(opts, participle.UseLookahead(2))
		}
		opts = append(opts, participle.Unquote("String"))
		return mustPH[hdFile]([]string{"Comment"}, opts...)
	},
	docs: []doc{
		{name: "one", valid: true, text: "\n\t<<{D0}\n\thello world\n\t{D0}\n"},
		{name: "mixed", valid: true, text: "x = \"s\"; # c\n<<{D0} a b c {D0};\ny = z\n<<{D1}\n  {D0} words über {D2}\n{D1}\nlast = \"q\\\"q\"\n"},
		{name: "three", valid: true, text: "<<{D0} a {D0} <<{D1} b {D1} <<{D2} c {D2} <<{D0} d {D0}\n"},
		flatDoc("flat-docs", "", "<<{D1} w {D1};", ""),
		flatDoc("flat-words", "<<{D2} w", " w", " {D2}\n"),
		flatDoc("flat-remarks", "a = b\n", "// r\n", "c = d # trailing comment"),
		{name: "trailing-elided", valid: true, text: "x = y # c1\n# c2\n  # c3"},
		{name: "empty", valid: true, text: ""},
		{name: "bad-escape-early", valid: false, text: "x = \"bad \\q escape\";\ny = z\n"},
		{name: "bad-escape-late", valid: false, text: "a = b\n# c\nlonger = name;\n  y = \"bad \\q escape\"\n"},
		{name: "unterminated", valid: false, text: "<<{D0} never closed"},
		{name: "stray-eq", valid: false, text: "x = = y"},
	},
}

// ---------------------------------------------------------------------------------------------
// W-basic: the checked-in generated lexer and the runtime lexer built from the same JSON
// ---------------------------------------------------------------------------------------------

type bsProgram struct {
	Pos      lexer.Position
	Commands []*bsCommand `@@*`
	EndPos   lexer.Position
	Tokens   []lexer.Token
}

type bsCommand struct {
	Pos   lexer.Position
	Line  int      `@Number`
	Let   *bsLet   `(   @@`
	Goto  *bsGoto  `  | @@`
	If    *bsIf    `  | @@`
	Print *bsPrint `  | @@ ) EOL`
}

type bsLet struct {
	Variable string  `"LET" @Ident`
	Value    *bsExpr `"=" @@`
}
type bsGoto struct {
	Line int `"GOTO" @Number`
}
type bsIf struct {
	Cond *bsExpr `"IF" @@`
	Line int     `"THEN" @Number`
}
type bsPrint struct {
	Expr *bsExpr `"PRINT" @@`
}
type bsExpr struct {
	Left  *bsValue   `@@`
	Right []*bsOpVal `@@*`
}
type bsOpVal struct {
	Op  string   `@("*" | "/" | "+" | "-" | "<=" | "<" | ">")`
	Val *bsValue `@@`
}
type bsValue struct {
	Number *float64 `  @Number`
	Var    *string  `| @Ident`
	Str    *string  `| @String`
	Sub    *bsExpr  `| "(" @@ ")"`
}

var basicRulesJSON []byte

func basicRuntimeDef() lexer.Definition {
	if basicRulesJSON == nil {
		b, err := os.ReadFile("lexer/internal/basiclexer.json")
		if err != nil {
			panic("cannot read lexer/internal/basiclexer.json in the scratch copy: " + err.Error())
		}
		basicRulesJSON = b
	}
	rules := lexer.Rules{}
	if err := json.Unmarshal(basicRulesJSON, &rules); err != nil {
		panic(err)
	}
	def, err := lexer.New(rules)
	if err != nil {
		panic(err)
	}
	return def
}

var worldBasic = &world{
	name: "basic", lexerKind: "generated", junk: " THEN THEN",
	hasGen: func() bool { return true },
	build: func(o buildOpts) PH {
		var def lexer.Definition
		if o.generated {
			def = verifshim.GeneratedBasicLexer()
		} else {
			def = basicRuntimeDef()
		}
		opts := applyCommon(o, def, nil)
		if o.lookahead == 0 {
			opts = append(opts, participle.UseLookahead(2))
		}
		opts = append(opts, participle.CaseInsensitive("Ident"), participle.Unquote("String"))
		return mustPH[bsProgram]([]string{"Whitespace", "Comment"}, opts...)
	},
	docs: []doc{
		{name: "factorial", valid: true, text: " 5  PRINT \"Factorial of:\"\n10  LET B = 1\n40  IF A <= 1 THEN 80\n50  LET B = B * A\n60  let a = A - 1\n70  GOTO 40\n80  PRINT B\n"},
		{name: "subexpr", valid: true, text: "10 LET X = ( 1 + ( 2 * Y ) ) / 3.5\n20 print \"ünï\\\"cødé\" + X\n"},
		flatDoc("flat-lines", "", "10 GOTO 10\n", ""),
		flatDoc("flat-sum", "10 PRINT 1", " + 1", "\n"),
		{name: "nest", valid: true, text: "10 PRINT ( ( 1 ) )\n", nest: func(d int) string {
			return "10 PRINT " + strings.Repeat("( ", d) + "1" + strings.Repeat(" )", d) + "\n"
		}},
		{name: "empty", valid: true, text: ""},
		{name: "bad-escape-early", valid: false, text: "10 PRINT \"bad \\q escape\"\n"},
		{name: "bad-escape-late", valid: false, text: "10 LET A = 1\n20 GOTO 10\n30   PRINT   \"bad \\q escape\"\n"},
		{name: "no-eol", valid: false, text: "10 PRINT 1"},
		{name: "bad-goto", valid: false, text: "10 GOTO X\n"},
	},
}

// ---------------------------------------------------------------------------------------------
// W-conformance: the repository's conformance rule map (Push, Pop, Return, Include, \b, (?i)),
// as runtime definition and as lexer generated at check time by the working tree's generator
// ---------------------------------------------------------------------------------------------

func conformanceRules() lexer.Rules {
	return lexer.Rules{
		"Root": {
			{Name: "ExprTest", Pattern: `EXPRTEST:`, Action: lexer.Push("ExprTest")},
			{Name: "LiteralTest", Pattern: `LITTEST:`, Action: lexer.Push("LiteralTest")},
			{Name: "CaseInsensitiveTest", Pattern: `CITEST:`, Action: lexer.Push("CaseInsensitiveTest")},
			{Name: "WordBoundaryTest", Pattern: `\bWBTEST:`, Action: lexer.Push("WordBoundaryTest")},
		},
		"ExprTest": {
			{Name: "ExprString", Pattern: `"`, Action: lexer.Push("ExprString")},
		},
		"ExprString": {
			{Name: "ExprEscaped", Pattern: `\\.`},
			{Name: "ExprStringEnd", Pattern: `"`, Action: lexer.Pop()},
			{Name: "Expr", Pattern: `\${`, Action: lexer.Push("Expr")},
			{Name: "ExprChar", Pattern: `[^$"\\]+`},
		},
		"Expr": {
			lexer.Include("ExprTest"),
			{Name: `Whitespace`, Pattern: `\s+`},
			{Name: `ExprOper`, Pattern: `[-+/*%]`},
			{Name: "Ident", Pattern: `\w+`, Action: lexer.Push("ExprReference")},
			{Name: "ExprEnd", Pattern: `}`, Action: lexer.Pop()},
		},
		"ExprReference": {
			{Name: "ExprDot", Pattern: `\.`},
			{Name: "Ident", Pattern: `\w+`},
			lexer.Return(),
		},
		"LiteralTest": {
			{Name: `LITOne`, Pattern: `ONE`},
			{Name: `LITKeyword`, Pattern: `SELECT|FROM|WHERE|LIKE`},
			{Name: "Ident", Pattern: `\w+`},
			{Name: "Whitespace", Pattern: `\s+`},
		},
		"CaseInsensitiveTest": {
			{Name: `ABCWord`, Pattern: `[aA][bB][cC]`},
			{Name: `CIKeyword`, Pattern: `(?i)(SELECT|from|WHERE|LIKE)`},
			{Name: "Ident", Pattern: `\w+`},
			{Name: "Whitespace", Pattern: `\s+`},
		},
		"WordBoundaryTest": {
			{Name: `WBKeyword`, Pattern: `\b(?:abc|xyz)\b`},
			{Name: `WBGroupKeyword`, Pattern: `(?:90|0)\b`},
			{Name: "Slash", Pattern: `/`},
			{Name: "Ident", Pattern: `\w+`},
			{Name: "Whitespace", Pattern: `\s+`},
		},
	}
}

type cfTest struct {
	Pos    lexer.Position
	Expr   *cfString `(   ExprTest @@`
	Lit    []string  `  | LiteralTest @( LITOne | LITKeyword | Ident )*`
	CI     []string  `  | CaseInsensitiveTest @( ABCWord | CIKeyword | Ident )*`
	WB     []string  `  | WordBoundaryTest @( WBKeyword | WBGroupKeyword | Slash | Ident )* )`
	EndPos lexer.Position
	Tokens []lexer.Token
}

type cfString struct {
	Parts []*cfPart `ExprString @@* ExprStringEnd`
}

type cfPart struct {
	Escaped string  `  @ExprEscaped`
	Chars   string  `| @ExprChar`
	Expr    *cfExpr `| Expr @@ ExprEnd`
}

type cfExpr struct {
	Terms []*cfTerm `@@*`
}

type cfTerm struct {
	Str  *cfString `  @@`
	Oper string    `| @ExprOper`
	Ref  []string  `| @Ident ( ExprDot @Ident )*`
}

var worldConformance = &world{
	name: "conformance", lexerKind: "stateful", junk: "",
	hasGen: func() bool { return generatedDefs["Conformance"] != nil },
	build: func(o buildOpts) PH {
		var def lexer.Definition
		if o.generated && generatedDefs["Conformance"] != nil {
			def = generatedDefs["Conformance"]
		} else {
			d, err := lexer.New(conformanceRules())
			if err != nil {
				panic(err)
			}
			def = d
		}
		opts := applyCommon(o, def, nil)
		return mustPH[cfTest]([]string{"Whitespace"}, opts...)
	},
	docs: []doc{
		{name: "push", valid: true, text: `EXPRTEST:"${"Hello ${name + "!"}"}"`},
		{name: "reference", valid: true, text: `EXPRTEST:"${user.name} and \"${a.b.c * 2}\" ünï"`},
		{name: "literal", valid: true, text: "LITTEST:SELECT ONE FROM tbl WHERE ONEx LIKE y"},
		{name: "ci", valid: true, text: "CITEST:select AbC From wHeRe abcd like"},
		{name: "wb", valid: true, text: "WBTEST:abc xyz/90 0 abcx 901 xyz"},
		flatDoc("flat-chars", `EXPRTEST:"a`, `${x}b`, `"`),
		flatDoc("flat-lit", "LITTEST:ONE", " ONE", ""),
		{name: "nest", valid: true, text: `EXPRTEST:"${"${"x"}"}"`, nest: func(d int) string {
			return `EXPRTEST:` + strings.Repeat(`"${`, d) + `"x"` + strings.Repeat(`}"`, d)
		}},
		{name: "escape-at-end", valid: false, text: `EXPRTEST:"${"Hello \`},
		{name: "unclosed", valid: false, text: `EXPRTEST:"${a.b`},
		{name: "unknown", valid: false, text: `NOTEST:abc`},
	},
}

// ---------------------------------------------------------------------------------------------
// all worlds
// ---------------------------------------------------------------------------------------------

var parseWorlds = []*world{worldIni, worldExpr, worldHeredoc, worldBasic, worldConformance}

func worldByName(n string) *world {
	for _, w := range robustWorlds {
		if w.name == n {
			return w
		}
	}
	if n == worldCallbacks.name {
		return worldCallbacks
	}
	if n == worldDurations.name {
		return worldDurations
	}
	if n == worldMisc.name {
		return worldMisc
	}
	return nil
}

// instantiate replaces per-run delimiter placeholders.
func instantiate(text string, delims [3]string) string {
	if !strings.Contains(text, "{D") {
		return text
	}
	text = strings.ReplaceAll(text, "{D0}", delims[0])
	text = strings.ReplaceAll(text, "{D1}", delims[1])
	text = strings.ReplaceAll(text, "{D2}", delims[2])
	return text
}

// runDelims derives three delimiter names that are unique to a run seed (so every run starts
// with a cold back-reference cache even against process-global state) but few within a run (so
// tasks collide on cache keys).
func runDelims(seed uint64) [3]string {
	var d [3]string
	for i := range d {
		d[i] = fmt.Sprintf("D%x%c", seed&0xffffffffffff, 'a'+i)
	}
	return d
}
