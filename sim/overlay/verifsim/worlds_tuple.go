package main

import (
	"strings"

	"github.com/alecthomas/participle/v2/lexer"
)

// W-tuple: two alternatives that share a recursive prefix of one token, "(" Expr ")" and
// "(" Expr "," Expr ")".  With lookahead 1 the parser commits to the first alternative as soon as
// it has consumed more than one token, which keeps nested input that is truncated after its
// innermost operand linear.  Other damaged inputs (k opening parentheses and nothing else) make
// any such grammar backtrack exponentially on the unchanged tree, like the sql example (see
// known_findings.json); to keep that recorded finding from drowning everything else the world is
// built with lookahead 1 only and its documents are used verbatim (no content faults).
type tpFile struct {
	Pos    lexer.Position
	Items  []*tpExpr `( @@ ";" )*`
	EndPos lexer.Position
	Tokens []lexer.Token
}

type tpExpr struct {
	Num   *int    `  @Int`
	Name  *string `| @Ident`
	Paren *tpExpr `| "(" @@ ")"`
	Pair  *tpPair `| @@`
}

type tpPair struct {
	A *tpExpr `"(" @@ ","`
	B *tpExpr `@@ ")"`
}

var worldTuple = &world{
	name: "tuple", lexerKind: "text/scanner", junk: " ) )", fixedLookaheads: []int{1}, verbatim: true,
	build: func(o buildOpts) PH {
		o.lookahead = 1
		return mustPH[tpFile](nil, applyCommon(o, nil, nil)...)
	},
	docs: []doc{
		{name: "parens", valid: true, text: "(1); ((x)); y;"},
		flatDoc("flat", "", "(1);", ""),
		{name: "nest", valid: true, text: "((1));", nest: func(d int) string { return strings.Repeat("(", d) + "1" + strings.Repeat(")", d) + ";" }},
		{name: "pair", valid: false, text: "(1, 2);"},
		{name: "truncated-after-operand-18", valid: false, text: strings.Repeat("(", 18) + "1"},
		{name: "truncated-after-operand-26", valid: false, text: strings.Repeat("(", 26) + "x"},
		{name: "truncated-after-operand-40", valid: false, text: strings.Repeat("(", 40) + "1"},
		{name: "half-closed", valid: false, text: strings.Repeat("(", 30) + "1" + strings.Repeat(")", 12)},
		{name: "empty", valid: true, text: ""},
	},
}

// W-buggy: a grammar with a construct the library itself treats as a grammar bug (an alternative
// that can match without consuming input).  It is outside C06's domain and is used only by the
// agreement (C15) and isolation (C09) profiles, for which every parser counts: the library panics
// on it, and all entry points must then panic alike.
type bgFile struct {
	Pos   lexer.Position
	Key   string    `@Ident ":"`
	Items []*bgItem `@@ ( "," @@ )*`
}

type bgItem struct {
	Name string `(  @Ident?`
	Num  int    ` | @Int )`
}

var worldBuggy = &world{
	name: "buggy-grammar", lexerKind: "text/scanner", junk: "",
	build: func(o buildOpts) PH { return mustPH[bgFile](nil, applyCommon(o, nil, nil)...) },
	docs: []doc{
		{name: "idents", valid: true, text: "xs: a, b, c"},
		{name: "with-int", valid: false, text: "xs: a, 1"},
		{name: "only-int", valid: false, text: "xs: 1"},
		{name: "empty", valid: false, text: ""},
	},
}
