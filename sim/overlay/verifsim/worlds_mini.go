package main

import (
	"fmt"
	"net"
	"strings"
	"unicode/utf8"

	"github.com/alecthomas/participle/v2"
	"github.com/alecthomas/participle/v2/lexer"
)

// Mini worlds: small grammars, each porting the shape of one or a few tests of the repository's
// parser_test.go / lookahead_test.go that exercise a feature of the tag language or of field
// conversion which the larger worlds do not contain.  Every document's validity holds under every
// lookahead of world.lookaheads() and under the narrow / mapped build variants.

func mnSimple(rules []lexer.SimpleRule) lexer.Definition {
	def, err := lexer.NewSimple(rules)
	if err != nil {
		panic(err)
	}
	return def
}

// ---------------------------------------------------------------------------------------------
// mini-accum: TestAccumulateNested, TestAccumulateString, TestStringConcat, TestTermCapture.
// Several captures accumulate into one string field (of a custom string type), @@+ accumulates
// into a slice of struct pointers, two captures of one disjunction feed the same field.
// ---------------------------------------------------------------------------------------------

type mnAccStr string

type mnAccInner struct {
	B string `@"one"`
	C string `@"two"`
}

type mnAccFile struct {
	Pos    lexer.Position
	Dots   mnAccStr      `@"."+`
	A      []*mnAccInner `@@+`
	Marks  string        `( @"!" | @"?" )*`
	Label  mnAccStr      `( "#" @Ident+ )?`
	EndPos lexer.Position
	Tokens []lexer.Token
}

var worldMiniAccum = &world{
	name: "mini-accum", lexerKind: "text/scanner",
	build: func(o buildOpts) PH {
		return mustPH[mnAccFile](nil, applyCommon(o, nil, nil)...)
	},
	docs: []doc{
		{name: "basic", valid: true, text: "... one two one two"},
		{name: "spaced", valid: true, text: ". . . .\none two !?! # tail end\n"},
		{name: "unicode", valid: true, text: ". one two ? # größe ünï 名前 żółć"},
		flatDoc("flat-dots", ".", " .", " one two"),
		flatDoc("flat-pairs", ". one two", " one two", " !"),
		flatDoc("flat-label", "...one two #a", " b", ""),
		{name: "broken-pair", valid: false, text: "... one two one one two"},
		{name: "empty-label", valid: false, text: ".. one two ! # "},
		{name: "no-dots", valid: false, text: "one two"},
	},
}

// ---------------------------------------------------------------------------------------------
// mini-across: TestRepetitionAcrossFields, TestRepeatAcrossFields.  One repetition whose
// alternatives capture into different fields; a disjunction spanning two pointer fields.
// ---------------------------------------------------------------------------------------------

type mnRafFile struct {
	Pos    lexer.Position
	A      string   `( @( "." ">" ) |`
	B      string   `  @( "," "<" ) )*`
	Semis  []string `@";"*`
	C      *string  `( @"b" |`
	D      *string  `  @"c" )`
	EndPos lexer.Position
	Tokens []lexer.Token
}

var worldMiniAcross = &world{
	name: "mini-across", lexerKind: "text/scanner",
	build: func(o buildOpts) PH {
		return mustPH[mnRafFile]([]string{"Comment"}, applyCommon(o, commentScanner(), nil)...)
	},
	docs: []doc{
		{name: "mixed", valid: true, text: ".>,<.>.>,<.>,<;b"},
		{name: "only-b", valid: true, text: "b"},
		{name: "spaced", valid: true, text: " . > , < ; ; c\n"},
		{name: "unicode-comments", valid: true, text: ".> /* größe ✓ */ ,< ; // ünï żółć\nc /* 名前 */"},
		flatDoc("flat-pairs", "", ".>,<", "c"),
		flatDoc("flat-semis", ".>", ";", "b"),
		{name: "crossed", valid: false, text: ".>.<b"},
		{name: "no-tail", valid: false, text: ".>,<"},
		{name: "both-tails", valid: false, text: ",< b c"},
	},
}

// ---------------------------------------------------------------------------------------------
// mini-scalars: TestInvalidNumbers, TestParseNumbers, TestCustomInt, TestBoolIfSet,
// TestCustomBoolIfSet.  A scalar field of every numeric kind with in-range, boundary and
// out-of-range inputs, a custom int type, bool and custom bool set by an optional capture.
// ---------------------------------------------------------------------------------------------

type mnNumInt int
type mnNumBool bool

type mnNumFile struct {
	Pos    lexer.Position
	Items  []*mnNumItem `@@*`
	EndPos lexer.Position
	Tokens []lexer.Token
}

type mnNumItem struct {
	Pos  lexer.Position
	I8   int8      `(   "int8" @( "-"? Int )`
	I16  int16     `  | "int16" @( "-"? Int )`
	I32  int32     `  | "int32" @( "-"? Int )`
	I64  int64     `  | "int64" @( "-"? Int )`
	U    uint      `  | "uint" @Int`
	U8   uint8     `  | "uint8" @Int`
	U16  uint16    `  | "uint16" @( "-"? Int )`
	U32  uint32    `  | "uint32" @Int`
	U64  uint64    `  | "uint64" @Int`
	F32  float32   `  | "float32" @( "-"? ( Float | Int ) )`
	F64  float64   `  | "float64" @( Float | Int | Ident )`
	My   mnNumInt  `  | "my" @Int`
	Flag bool      `  | "flag" @"true"?`
	Mine mnNumBool `  | "mine" @"on"?`
	Note string    `  | "note" @( String | Ident ) ) ";"`
}

var worldMiniScalars = &world{
	name: "mini-scalars", lexerKind: "text/scanner",
	build: func(o buildOpts) PH {
		return mustPH[mnNumFile](nil, applyCommon(o, nil, nil)...)
	},
	docs: []doc{
		{name: "limits", valid: true, text: "int8 -128; int8 127; int16 32767; int32 -2147483648; int64 9223372036854775807; int64 -9223372036854775808;\n" +
			"uint 7; uint8 255; uint16 65535; uint32 4294967295; uint64 18446744073709551615;\n" +
			"float32 -3.4e38; float32 7; float64 1234.5; float64 1e308; float64 Inf; my 42;\n"},
		{name: "bools", valid: true, text: "flag true; flag; mine on; mine; note plain; my 0;"},
		{name: "bases", valid: true, text: "int8 0x7f; uint8 0b11111111; int16 0o777; uint64 0xffffffffffffffff; int32 1_000; my 0x10;"},
		{name: "unicode", valid: true, text: "note größe; note \"ünï ✓ 名前\"; float64 infinity; my 1;"},
		flatDoc("flat-items", "flag;", " my 1;", " mine on;"),
		{name: "empty", valid: true, text: ""},
		{name: "int8-range", valid: false, text: "int8 1; int8 128; int8 2;"},
		{name: "uint64-range", valid: false, text: "uint64 1; uint64 18446744073709551616;"},
		{name: "float32-range", valid: false, text: "float32 1.5; float32 1e39; float32 2;"},
		{name: "uint16-negative", valid: false, text: "uint16 2; uint16 -2; uint16 3;"},
		{name: "float64-word", valid: false, text: "float64 1; float64 größe;"},
		{name: "custom-int-range", valid: false, text: "my 1; my 99999999999999999999; my 2;"},
		{name: "int64-range", valid: false, text: "int64 0; int64 9223372036854775808;"},
		{name: "bool-wrong-word", valid: false, text: "flag true; mine true;"},
	},
}

// ---------------------------------------------------------------------------------------------
// mini-ptrlist: TestPointerToList, TestTokenAfterRepeatErrors, TestEOFAfterRepeat.  Pointer to
// slice fields of several element kinds, a mandatory token after a repetition and a repetition
// that runs into EOF.
// ---------------------------------------------------------------------------------------------

type mnPlFile struct {
	Pos    lexer.Position
	List   *[]string  `@Ident*`
	Nums   *[]int     `@Int*`
	Stop   string     `@"."`
	Floats *[]float64 `@Float*`
	Rest   *[]string  `@Ident*`
	EndPos lexer.Position
	Tokens []lexer.Token
}

var worldMiniPtrList = &world{
	name: "mini-ptrlist", lexerKind: "text/scanner",
	build: func(o buildOpts) PH {
		return mustPH[mnPlFile](nil, applyCommon(o, nil, nil)...)
	},
	docs: []doc{
		{name: "all", valid: true, text: "foo bar 1 2 3 . 1.5 2.25 baz"},
		{name: "minimal", valid: true, text: " . "},
		{name: "unicode", valid: true, text: "größe ünï 7 . 0.5 é 名前\n"},
		flatDoc("flat-idents", "", "a ", "."),
		flatDoc("flat-nums", "x", " 1", " ."),
		flatDoc("flat-rest", ". 1.5", " z", ""),
		{name: "ident-after-nums", valid: false, text: "foo 1 bar ."},
		{name: "no-stop", valid: false, text: "a b 1"},
		{name: "int-range", valid: false, text: "a 1 99999999999999999999 2 ."},
		{name: "empty", valid: false, text: ""},
	},
}

// ---------------------------------------------------------------------------------------------
// mini-emptyseq: TestEmptySequenceMatches.  A root that consists of repetitions only, over a
// simple (stateful) lexer with an upper-case, elided Whitespace token.
// ---------------------------------------------------------------------------------------------

type mnEsFile struct {
	Pos      lexer.Position
	Ident    []string `@Ident*`
	Comments []string `@Comment*`
	EndPos   lexer.Position
	Tokens   []lexer.Token
}

var worldMiniEmptySeq = &world{
	name: "mini-emptyseq", lexerKind: "stateful",
	build: func(o buildOpts) PH {
		def := mnSimple([]lexer.SimpleRule{
			{Name: "Ident", Pattern: `[\p{L}_][\p{L}\p{N}_.:-]*`},
			{Name: "Comment", Pattern: `/\*[^*]*\*/`},
			{Name: "Whitespace", Pattern: `\s+`},
		})
		return mustPH[mnEsFile]([]string{"Whitespace"}, applyCommon(o, def, nil)...)
	},
	docs: []doc{
		{name: "empty", valid: true, text: ""},
		{name: "blank", valid: true, text: " \n\t"},
		{name: "idents", valid: true, text: "a b.c d:e-f"},
		{name: "both", valid: true, text: "a /* c */ /* d */\n"},
		{name: "unicode", valid: true, text: "größe 名前 /* ünï ✓ */ /* żółć */"},
		flatDoc("flat-idents", "", "a ", "/* c */"),
		flatDoc("flat-comments", "a", " /* c */", ""),
		{name: "ident-after-comment", valid: false, text: "a /* c */ b"},
		{name: "unterminated", valid: false, text: "a b /* never closed"},
		{name: "bad-char", valid: false, text: "a b ; c"},
	},
}

// ---------------------------------------------------------------------------------------------
// mini-slicecap: TestCaptureOnSliceElements, TestParseOnSliceElements, TestIssue62.  Slices
// whose elements (values and pointers) implement Capture, slices whose value elements implement
// Parseable.
// ---------------------------------------------------------------------------------------------

type mnScCap string

func (c *mnScCap) Capture(values []string) error {
	if len(values) == 0 {
		return nil
	}
	if strings.HasPrefix(values[0], "bad") {
		return fmt.Errorf("word %q is not allowed", values[0])
	}
	*c = mnScCap(strings.ToUpper(values[0]))
	return nil
}

type mnScParse string

func (s *mnScParse) Parse(lex *lexer.PeekingLexer) error {
	t := lex.Peek()
	if t.EOF() || utf8.RuneCountInString(t.Value) != 3 {
		return participle.NextMatch
	}
	lex.Next()
	*s = mnScParse(strings.Repeat(t.Value, 2))
	return nil
}

type mnScFile struct {
	Pos      lexer.Position
	Single   *mnScCap    `@Word`
	Slice    []mnScCap   `@Word @Word`
	SlicePtr []*mnScCap  `"|" @Word*`
	PSingle  *mnScParse  `";" @@`
	PSlice   []mnScParse `@@+`
	EndPos   lexer.Position
	Tokens   []lexer.Token
}

var worldMiniSliceCap = &world{
	name: "mini-slicecap", lexerKind: "stateful",
	build: func(o buildOpts) PH {
		def := mnSimple([]lexer.SimpleRule{
			{Name: "Word", Pattern: `\p{L}+`},
			{Name: "Punct", Pattern: `[|;]`},
			{Name: "Whitespace", Pattern: `\s+`},
		})
		return mustPH[mnScFile]([]string{"Whitespace"}, applyCommon(o, def, nil)...)
	},
	docs: []doc{
		{name: "basic", valid: true, text: "abc def ijk | lmn opq ; abc def ijk"},
		{name: "no-ptrs", valid: true, text: "a b c|;xyz xyz\n"},
		{name: "unicode", valid: true, text: "größe ünï naïve | żółć ; äöü ßab 名前名"},
		flatDoc("flat-ptrs", "a b c |", " w", " ; abc abc"),
		flatDoc("flat-parse", "a b c | ; abc", " xyz", ""),
		{name: "long-element", valid: false, text: "abc def ijk | lmn ; abc defg"},
		{name: "capture-refuses", valid: false, text: "abc def badword | x ; abc abc"},
		{name: "ptr-capture-refuses", valid: false, text: "abc def ijk | x bad y ; abc abc"},
		{name: "short", valid: false, text: "abc def"},
		{name: "first-element-long", valid: false, text: "a b c | ; abcd abc"},
	},
}

// ---------------------------------------------------------------------------------------------
// mini-netip: TestUnmarshalNetIP, TestCaptureIP.  A field of a slice kind that is filled through
// encoding.TextUnmarshaler (net.IP), a named slice type filled through Capture, and a slice of
// such elements.
// ---------------------------------------------------------------------------------------------

type mnIPAddr net.IP

func (a *mnIPAddr) Capture(values []string) error {
	if len(values) == 0 {
		return nil
	}
	ip := net.ParseIP(values[0])
	if ip == nil {
		return fmt.Errorf("bad address %q", values[0])
	}
	*a = mnIPAddr(ip)
	return nil
}

type mnIPFile struct {
	Pos    lexer.Position
	Hosts  []*mnIPHost `@@*`
	EndPos lexer.Position
	Tokens []lexer.Token
}

type mnIPHost struct {
	Pos  lexer.Position
	Name string     `@Ident "="`
	IP   net.IP     `( @IP`
	Addr mnIPAddr   `| "~" @IP )`
	Alts []mnIPAddr `( "," @IP )* ";"`
}

var worldMiniNetIP = &world{
	name: "mini-netip", lexerKind: "stateful",
	build: func(o buildOpts) PH {
		def := mnSimple([]lexer.SimpleRule{
			{Name: "IP", Pattern: `[\d.]+`},
			{Name: "Ident", Pattern: `[\p{L}_][\p{L}\p{N}_]*`},
			{Name: "Punct", Pattern: `[=~,;]`},
			{Name: "whitespace", Pattern: `\s+`},
		})
		return mustPH[mnIPFile](nil, applyCommon(o, def, nil)...)
	},
	docs: []doc{
		{name: "basic", valid: true, text: "a = 10.2.3.4; b = ~ 192.168.0.1, 10.0.0.1, 127.0.0.1;\n"},
		{name: "unicode", valid: true, text: "größe = 1.2.3.4;\nхост = ~8.8.8.8,8.8.4.4;\n名前=255.255.255.255;"},
		flatDoc("flat-hosts", "", "h = 1.1.1.1; ", ""),
		flatDoc("flat-alts", "h = 1.1.1.1", ", 2.2.2.2", ";"),
		{name: "empty", valid: true, text: ""},
		{name: "bad-octet", valid: false, text: "a = 1.2.3.4; b = 10.2.3.400; c = 1.1.1.1;"},
		{name: "capture-refuses", valid: false, text: "a = 1.2.3.4; b = ~ 1.2.3;"},
		{name: "alt-refuses", valid: false, text: "a = 1.2.3.4, 5.6.7.8, 9..9;"},
		{name: "no-address", valid: false, text: "a = 1.1.1.1; b = ;"},
		{name: "no-semicolon", valid: false, text: "a = 1.2.3.4"},
	},
}

// ---------------------------------------------------------------------------------------------
// mini-boxed: TestBoxedCapture, TestStructCaptureInterface.  A struct type that carries grammar
// tags of its own but is filled from a token capture through its Capture method: as a value
// field, as slice elements and behind a pointer.
// ---------------------------------------------------------------------------------------------

type mnBox struct {
	Pos lexer.Position
	Val string `@Ident`
}

func (b *mnBox) Capture(values []string) error {
	if len(values) == 0 {
		return nil
	}
	if strings.HasSuffix(values[0], ":") {
		return fmt.Errorf("box %q ends in a colon", values[0])
	}
	b.Val = values[0]
	return nil
}

type mnBoxFile struct {
	Pos    lexer.Position
	First  mnBox   `@Ident`
	Rest   []mnBox `( "," @Ident )*`
	Ptr    *mnBox  `( ";" @Ident )?`
	EndPos lexer.Position
	Tokens []lexer.Token
}

var worldMiniBoxed = &world{
	name: "mini-boxed", lexerKind: "stateful",
	build: func(o buildOpts) PH {
		def := mnSimple([]lexer.SimpleRule{
			{Name: "Ident", Pattern: `\p{L}[\p{L}\p{N}_./:-]*`},
			{Name: "Punct", Pattern: `[,;]`},
			{Name: "whitespace", Pattern: `\s+`},
		})
		return mustPH[mnBoxFile](nil, applyCommon(o, def, nil)...)
	},
	docs: []doc{
		{name: "one", valid: true, text: "abc::cdef.abc"},
		{name: "all", valid: true, text: "a, b/c, d-e ; last\n"},
		{name: "unicode", valid: true, text: "größe:ünï, żółć/名前;é"},
		flatDoc("flat-rest", "a", ", b", "; c"),
		{name: "double-comma", valid: false, text: "a, b, , c"},
		{name: "capture-refuses", valid: false, text: "a, bad:, c"},
		{name: "ptr-missing", valid: false, text: "a, b ; "},
		{name: "trailing", valid: false, text: "a b"},
		{name: "empty", valid: false, text: ""},
	},
}

// ---------------------------------------------------------------------------------------------
// mini-elided: TestParseExplicitElidedTypedLiteral, TestParseExplicitElidedIdent.  An elided
// token type that the grammar nevertheless matches explicitly, by typed literal and by name.
// ---------------------------------------------------------------------------------------------

type mnElFile struct {
	Pos    lexer.Position
	Items  []*mnElItem `@@*`
	EndPos lexer.Position
	Tokens []lexer.Token
}

type mnElItem struct {
	Pos    lexer.Position
	Marked string `@"/* Comment */":Comment?`
	Doc    string `@Comment?`
	Ident  string `@Ident ";"`
	EndPos lexer.Position
}

var worldMiniElided = &world{
	name: "mini-elided", lexerKind: "stateful",
	build: func(o buildOpts) PH {
		def := mnSimple([]lexer.SimpleRule{
			{Name: "Ident", Pattern: `[\p{L}_][\p{L}\p{N}_.:-]*`},
			{Name: "Comment", Pattern: `/\*[^*]*\*/`},
			{Name: "Punct", Pattern: `;`},
			{Name: "whitespace", Pattern: `\s+`},
		})
		return mustPH[mnElFile]([]string{"Comment"}, applyCommon(o, def, nil)...)
	},
	docs: []doc{
		{name: "plain", valid: true, text: "hello;"},
		{name: "all", valid: true, text: "/* Comment */ hello; /* other */ world; /* Comment */ /* both */ x; /* a */ /* b */ /* c */ y /* d */ ;"},
		{name: "unicode", valid: true, text: "/* ünï ✓ */ größe;\n/* Comment */ 名前;\n"},
		flatDoc("flat-items", "", "/* Comment */ a; ", ""),
		flatDoc("flat-comments", "/* d */", " /* e */", " a;"),
		{name: "only-comments", valid: true, text: "/* Comment */ /* d */"},
		{name: "trailing-comment", valid: true, text: "a; /* Comment */"},
		{name: "stray-semicolon", valid: false, text: "a; /* c */ ; b;"},
		{name: "no-semicolon", valid: false, text: "a; /* Comment */ b c;"},
		{name: "unterminated", valid: false, text: "a; /* Comment"},
	},
}

// ---------------------------------------------------------------------------------------------
// mini-optgroup: TestNestedOptional, TestNonEmptyMatchWithOptionalGroup, TestModifiers.  EBNF
// style [ ] options that nest a repetition, the non-empty modifier around optional groups that
// span two struct-valued fields (tags in the parser:"..." key form with single-quoted literals),
// the non-empty modifier inside a capture.
// ---------------------------------------------------------------------------------------------

type mnOptTerm struct {
	Minus bool   `@"-"?`
	Name  string `@Ident`
}

type mnOptFile struct {
	Pos    lexer.Position
	Items  []*mnOptItem `@@*`
	EndPos lexer.Position
	Tokens []lexer.Token
}

type mnOptItem struct {
	Pos   lexer.Position
	Args  []string  `(   "(" [ @Ident ( "," @Ident )* ] ")"`
	Start mnOptTerm `parser:"  | '[' ( @@?"`
	End   mnOptTerm `parser:"          ( ':' @@ )? )! ']'"`
	Mod   string    `  | "<" @( ( "x"? "y"? "z"? )! "b" ) ">" ) ";"`
}

var worldMiniOptGroup = &world{
	name: "mini-optgroup", lexerKind: "text/scanner",
	build: func(o buildOpts) PH {
		return mustPH[mnOptFile](nil, applyCommon(o, nil, nil)...)
	},
	docs: []doc{
		{name: "args", valid: true, text: "(); (a); (a, b, c);"},
		{name: "ranges", valid: true, text: "[-x]; [a:-b]; [:end]; [ - a : - b ];"},
		{name: "modifiers", valid: true, text: "<x b>; <x y z b>; <x z b>; <z b>;"},
		{name: "unicode", valid: true, text: "(größe, ünï);\n[é:-名前];\n"},
		flatDoc("flat-args", "(a", ", b", ");"),
		flatDoc("flat-items", "", "[a]; ", "()\n;"),
		{name: "number-arg", valid: false, text: "(a); (1); (b);"},
		{name: "empty-range", valid: false, text: "[a]; []; [b];"},
		{name: "empty-modifier", valid: false, text: "<x b>; <b>;"},
		{name: "dangling-comma", valid: false, text: "(a, b, );"},
		{name: "dangling-colon", valid: false, text: "[a:];"},
	},
}

// ---------------------------------------------------------------------------------------------
// mini-disj: TestDisjunctionErrorReporting, TestShowNearestError, TestParseAlternative.  A
// disjunction over bool fields inside a bracketed repetition; alternatives that share their
// first token.
// ---------------------------------------------------------------------------------------------

type mnDjFile struct {
	Pos        lexer.Position
	Statements []*mnDjStmt `"{" ( @@ )* "}"`
	EndPos     lexer.Position
	Tokens     []lexer.Token
}

type mnDjStmt struct {
	Add    bool   `  @"add"`
	Remove bool   `| @"remove"`
	Seq    string `| @"a" @"b" @"c"`
	Alt    string `| @"a" @"z"`
	Note   string `| "note" @( String | Ident )`
}

var worldMiniDisj = &world{
	name: "mini-disj", lexerKind: "text/scanner",
	build: func(o buildOpts) PH {
		opts := applyCommon(o, nil, nil)
		opts = append(opts, participle.Unquote("String"))
		return mustPH[mnDjFile](nil, opts...)
	},
	docs: []doc{
		{name: "basic", valid: true, text: "{ add remove add }"},
		{name: "none", valid: true, text: "{}"},
		{name: "shared-prefix", valid: true, text: "{ a b c a z add a z a b c }"},
		{name: "unicode", valid: true, text: "{ note \"ünï ✓ \\\"q\\\"\" note größe add note 名前 }"},
		flatDoc("flat-adds", "{", " add", " }"),
		flatDoc("flat-alts", "{ remove", " a z", " a b c }"),
		{name: "stray-word", valid: false, text: "{ add foo }"},
		{name: "nearest", valid: false, text: "{ add a b d }"},
		{name: "unclosed", valid: false, text: "{ add remove"},
		{name: "unopened", valid: false, text: "add }"},
	},
}

// ---------------------------------------------------------------------------------------------
// mini-posmixin: TestMixinPosIsPopulated, TestMixinFieldsAreParsed,
// TestPosInjectionCustomPosition.  Pos / EndPos promoted from an embedded struct, Pos / EndPos
// of a user-defined type that is merely convertible from lexer.Position, grammar fields promoted
// from an embedded struct.
// ---------------------------------------------------------------------------------------------

type mnPmPosition struct {
	Filename string
	Offset   int
	Line     int
	Column   int
}

type mnPmMixin struct {
	Pos    lexer.Position
	EndPos lexer.Position
}

type mnPmNames struct {
	A string `@Ident`
	B string `@Ident`
}

type mnPmFile struct {
	mnPmMixin
	Tokens []lexer.Token
	Decls  []*mnPmDecl `@@*`
}

type mnPmDecl struct {
	Pos    mnPmPosition
	EndPos mnPmPosition
	mnPmNames
	Val int `"=" @Int ";"`
}

var worldMiniPosMixin = &world{
	name: "mini-posmixin", lexerKind: "text/scanner",
	build: func(o buildOpts) PH {
		return mustPH[mnPmFile](nil, applyCommon(o, nil, nil)...)
	},
	docs: []doc{
		{name: "one", valid: true, text: "one two = 3;"},
		{name: "unicode", valid: true, text: "  größe ünï = 10;\n\tα 名前 = 0;\n"},
		flatDoc("flat-decls", "", "a b = 1; ", ""),
		{name: "empty", valid: true, text: ""},
		{name: "one-name", valid: false, text: "a b = 1; c = 2;"},
		{name: "word-value", valid: false, text: "a b = 1; c d = x;"},
		{name: "no-semicolon", valid: false, text: "a b = 1"},
	},
}

// ---------------------------------------------------------------------------------------------
// mini-lagroup: TestLookaheadGroup_Negative_MultipleTokens, _Negative_SingleToken,
// _Positive_SingleToken.  Lookahead groups that look at several tokens, a capture inside a
// lookahead group, a lookahead group as the guard of a repetition body.
// ---------------------------------------------------------------------------------------------

type mnLgFile struct {
	Pos    lexer.Position
	Lines  []*mnLgLine `@@*`
	EndPos lexer.Position
	Tokens []lexer.Token
}

type mnLgVar struct {
	Name string `@Ident`
}

type mnLgVal struct {
	Str string `  @String`
	Int int    `| @Int`
}

type mnLgOp struct {
	Op      string  `@( "+" | "*" (?= @Int) )`
	Operand mnLgVal `@@`
}

type mnLgSum struct {
	Left mnLgVal  `@@`
	Ops  []mnLgOp `@@*`
}

type mnLgLine struct {
	Pos    lexer.Position
	Parts  []string  `(   "parts" ( (?! "." "." "." ) @( Ident | "." ) )*`
	Ids    []mnLgVar `  | "ids" ( (?! "except" | "end" ) @@ )*`
	Except *mnLgVar  `          ( "except" @@ )? "end"`
	Sum    *mnLgSum  `  | "sum" @@`
	Key    string    `  | "kv" ( (?= Ident "=" Ident ) @Ident "=" )?`
	Val    string    `         @Ident ) ";"`
}

var worldMiniLaGroup = &world{
	name: "mini-lagroup", lexerKind: "text/scanner",
	build: func(o buildOpts) PH {
		return mustPH[mnLgFile](nil, applyCommon(o, nil, nil)...)
	},
	docs: []doc{
		{name: "parts", valid: true, text: "parts x.y.z.; parts ..x..; parts two.. are fine; parts;"},
		{name: "ids", valid: true, text: "ids one two three exception end; ids anything except this end; ids except the end; ids end;"},
		{name: "sums", valid: true, text: "sum \"x\" + \"y\" + 4; sum \"a\" * 4 + \"b\"; sum 1 * 2 * 3; sum 7;"},
		{name: "kv-unicode", valid: true, text: "kv größe = ünï; kv é; parts α.β..名前; ids ö except ü end;"},
		flatDoc("flat-parts", "parts a", " . b", ";"),
		flatDoc("flat-sum", "sum 1", " * 2", ";"),
		flatDoc("flat-ids", "ids", " x", " except y end;"),
		{name: "three-dots", valid: false, text: "parts ok; parts but this... is just wrong;"},
		{name: "star-char", valid: false, text: "sum \"a\" * 'x' + \"b\";"},
		{name: "star-string", valid: false, text: "sum 4 * 2 + 0 * \"b\";"},
		{name: "after-end", valid: false, text: "ids no end in sight;"},
		{name: "kv-no-value", valid: false, text: "kv a = b; kv k = ; kv c;"},
	},
}

// ---------------------------------------------------------------------------------------------
// mini-union: TestParserWithUnion, TestIssue255.  Two mutually recursive unions, one with value
// members, one whose members are all registered as pointers.  (Mixing a value member and a
// pointer member in one union makes union.Parse panic on the unchanged library, so the world
// does not do that.)
// ---------------------------------------------------------------------------------------------

type mnUnA interface{ isMnUnA() }
type mnUnB interface{ isMnUnB() }

type mnUnA1 struct {
	V string `@Ident`
}
type mnUnA2 struct {
	V mnUnB `"[" @@ "]"`
}
type mnUnB1 struct {
	V float64 `@Int | @Float`
}
type mnUnB2 struct {
	V mnUnA `"{" @@ "}"`
}

func (mnUnA1) isMnUnA()  {}
func (mnUnA2) isMnUnA()  {}
func (*mnUnB1) isMnUnB() {}
func (*mnUnB2) isMnUnB() {}

type mnUnItem struct {
	Pos lexer.Position
	A   mnUnA `  @@`
	B   mnUnB `| @@`
}

type mnUnFile struct {
	Pos    lexer.Position
	Items  []*mnUnItem `( @@ ";" )*`
	EndPos lexer.Position
	Tokens []lexer.Token
}

func mnUnNest(d int) string {
	s, isB := "1", true
	for i := 0; i < d; i++ {
		if isB {
			s = "[" + s + "]"
		} else {
			s = "{ " + s + " }"
		}
		isB = !isB
	}
	return s + ";"
}

var worldMiniUnion = &world{
	name: "mini-union", lexerKind: "text/scanner",
	build: func(o buildOpts) PH {
		opts := applyCommon(o, nil, nil)
		opts = append(opts, participle.Union[mnUnA](mnUnA1{}, mnUnA2{}), participle.Union[mnUnB](&mnUnB1{}, &mnUnB2{}))
		return mustPH[mnUnFile](nil, opts...)
	},
	docs: []doc{
		{name: "all", valid: true, text: "a; 1.5; [2.5]; {x}; { [ { [12] } ] };"},
		{name: "unicode", valid: true, text: "größe; {ünï};\n[{名前}];\n"},
		flatDoc("flat-items", "", "[1]; ", "x;"),
		{name: "nest", valid: true, text: "{ [1] };", nest: mnUnNest},
		{name: "empty", valid: true, text: ""},
		{name: "wrong-member", valid: false, text: "a; [x]; b;"},
		{name: "wrong-member-b", valid: false, text: "{ [ {1} ] };"},
		{name: "unbalanced", valid: false, text: "{ [ { [12] } ] ;"},
		{name: "two-values", valid: false, text: "a; b c;"},
	},
}

// ---------------------------------------------------------------------------------------------
// mini-nestedpos: TestASTTokens, TestEndPos, TestPosInjection.  Pos, EndPos and Tokens on nested
// structs (value and pointer fields), with elided whitespace inside and around the nodes, and a
// nested node that may match nothing.
// ---------------------------------------------------------------------------------------------

type mnNpFile struct {
	Pos    lexer.Position
	Tokens []lexer.Token
	Greets []*mnNpGreet `@@*`
	EndPos lexer.Position
}

type mnNpGreet struct {
	Pos     lexer.Position
	Tokens  []lexer.Token
	Subject mnNpSubject `"hello" @@`
	Commas  *mnNpCommas `@@`
	End     string      `@"."`
	EndPos  lexer.Position
}

type mnNpSubject struct {
	Pos    lexer.Position
	EndPos lexer.Position
	Tokens []lexer.Token
	Word   string `@Ident`
}

type mnNpCommas struct {
	Pos    lexer.Position
	B      string `@","*`
	EndPos lexer.Position
}

var worldMiniNestedPos = &world{
	name: "mini-nestedpos", lexerKind: "stateful",
	build: func(o buildOpts) PH {
		def := mnSimple([]lexer.SimpleRule{
			{Name: "Ident", Pattern: `[\p{L}\p{N}_:]+`},
			{Name: "Punct", Pattern: `[.,]`},
			{Name: "Whitespace", Pattern: `\s+`},
		})
		return mustPH[mnNpFile]([]string{"Whitespace"}, applyCommon(o, def, nil)...)
	},
	docs: []doc{
		{name: "one", valid: true, text: "hello world."},
		{name: "commas", valid: true, text: "hello world,,, . hello again ."},
		{name: "unicode", valid: true, text: "  hello größe ,, .\n\thello ünï:名前.\n"},
		flatDoc("flat-greets", "", "hello w. ", ""),
		flatDoc("flat-commas", "hello w", ",", "."),
		{name: "empty", valid: true, text: ""},
		{name: "no-subject", valid: false, text: "hello world. hello . x"},
		{name: "no-greeting", valid: false, text: "hello a. b."},
		{name: "no-stop", valid: false, text: "hello world"},
		{name: "bad-char", valid: false, text: "hello world; hello x."},
	},
}

// ---------------------------------------------------------------------------------------------
// mini-converge: TestLookaheadWithConvergingTokens, TestIssue3Example1, TestIssue27,
// TestLookaheadDisambiguateByType, TestRewindDisjunction.  Alternatives with common prefixes that
// converge again, a right-recursive optional tail, sign coalescing in two alternatives that
// differ by token type only.
// ---------------------------------------------------------------------------------------------

type mnCvFile struct {
	Pos    lexer.Position
	Stmts  []*mnCvStmt `( @@ ";" )*`
	EndPos lexer.Position
	Tokens []lexer.Token
}

type mnCvStmt struct {
	Pos  lexer.Position
	Decl *mnCvDecl `  @@`
	Cmp  *mnCvCmp  `| @@`
}

type mnCvDecl struct {
	SourceFilename string `  "source_filename" "=" @String`
	DataLayout     string `| "target" "datalayout" "=" @String`
	TargetTriple   string `| "target" "triple" "=" @String`
}

type mnCvCmp struct {
	Left mnCvNum  `@@`
	Op   string   `[ @( ">" "=" | ">" | "<" "=" | "<" )`
	Next *mnCvCmp `  @@ ]`
}

type mnCvNum struct {
	Int   int     `  @( [ "-" ] Int )`
	Float float64 `| @( [ "-" ] Float )`
	Call  string  `| @Ident "(" ")"`
	Name  string  `| @Ident`
}

var worldMiniConverge = &world{
	name: "mini-converge", lexerKind: "text/scanner",
	build: func(o buildOpts) PH {
		opts := applyCommon(o, nil, nil)
		opts = append(opts, participle.Unquote("String"))
		return mustPH[mnCvFile](nil, opts...)
	},
	docs: []doc{
		{name: "decls", valid: true, text: "source_filename = \"foo.c\";\ntarget datalayout = \"bar\";\ntarget triple = \"baz\";\n"},
		{name: "compare", valid: true, text: "a >= b; a > b < c <= - 100 > - 100.5; 100; target > 1; f() < g();"},
		{name: "unicode", valid: true, text: "größe >= ünï; source_filename = \"✓ żółć\"; 名前() <= -1;"},
		{name: "chain", valid: true, text: "a >= b >= b >= b;"}, // right-recursive in the grammar: not a flat unit
		flatDoc("flat-stmts", "", "target triple = \"t\"; ", "x;"),
		{name: "nest", valid: true, text: "a > a > a;", nest: func(d int) string { return strings.Repeat("a <= ", d) + "a;" }},
		{name: "empty", valid: true, text: ""},
		{name: "no-operand", valid: false, text: "a >= b; a >= ; c;"},
		{name: "unknown-target", valid: false, text: "x; target layout = \"x\";"},
		{name: "double-op", valid: false, text: "a > > b;"},
		{name: "half-call", valid: false, text: "a < f( ;"},
	},
}

// ---------------------------------------------------------------------------------------------
// mini-ebnf: TestEBNFParser (and the { } / [ ] spellings of TestTextUnmarshalerInterface,
// TestIssue11).  The recursive EBNF grammar of the test suite, with repetitions and options
// written in EBNF style and a multi-byte literal ("…") in a tag.
// ---------------------------------------------------------------------------------------------

type mnEbGroup struct {
	Expression *mnEbExpr `"(" @@ ")"`
}

type mnEbLook struct {
	Negative   bool      `"(" "?" ( "=" | @"!" )`
	Expression *mnEbExpr `@@ ")"`
}

type mnEbOption struct {
	Expression *mnEbExpr `"[" @@ "]"`
}

type mnEbRep struct {
	Expression *mnEbExpr `"{" @@ "}"`
}

type mnEbNeg struct {
	Term *mnEbTerm `"!" @@`
}

type mnEbLit struct {
	Start string `@String`
	End   string `[ "…" @String ]`
}

type mnEbTerm struct {
	Pos     lexer.Position
	Name    string      `  @Ident`
	Literal *mnEbLit    `| @@`
	Group   *mnEbGroup  `| @@`
	Look    *mnEbLook   `| @@`
	Option  *mnEbOption `| @@`
	Rep     *mnEbRep    `| @@`
	Neg     *mnEbNeg    `| @@`
}

type mnEbSeq struct {
	Terms []*mnEbTerm `@@+`
}

type mnEbExpr struct {
	Alternatives []*mnEbSeq `@@ { "|" @@ }`
}

type mnEbProd struct {
	Pos        lexer.Position
	Name       string    `@Ident "="`
	Expression *mnEbExpr `[ @@ ] "."`
	EndPos     lexer.Position
}

type mnEbFile struct {
	Pos         lexer.Position
	Productions []*mnEbProd `{ @@ }`
	EndPos      lexer.Position
	Tokens      []lexer.Token
}

var worldMiniEbnf = &world{
	name: "mini-ebnf", lexerKind: "text/scanner",
	build: func(o buildOpts) PH {
		opts := applyCommon(o, nil, nil)
		opts = append(opts, participle.Unquote("String"))
		return mustPH[mnEbFile](nil, opts...)
	},
	docs: []doc{
		{name: "self", valid: true, text: "Production  = name \"=\" [ Expression ] \".\" .\nExpression  = Alternative { \"|\" Alternative } .\nAlternative = Term { Term } .\n" +
			"Term        = name | token [ \"…\" token ] | \"@@\" | Group | EBNFOption | Repetition .\nGroup       = \"(\" Expression \")\" .\nEBNFOption      = \"[\" Expression \"]\" .\nRepetition  = \"{\" Expression \"}\" .\n"},
		{name: "ranges-lookahead", valid: true, text: "Letter = \"a\" … \"z\" | \"A\"…\"Z\" .\nGuard = (?= Letter) (?! \"x\" | \"y\") !\"q\" ! ( a b ) Letter .\nEmpty = .\n"},
		{name: "unicode", valid: true, text: "größe = \"ünï ✓\" … \"żółć\" { 名前 } .\n"},
		flatDoc("flat-terms", "A = b", " c", " ."),
		flatDoc("flat-alts", "A = b", " | c d", " ."),
		flatDoc("flat-prods", "", "A = [ b ] .\n", ""),
		{name: "nest", valid: true, text: "P = ((a)) .", nest: func(d int) string {
			return "P = " + strings.Repeat("( ", d) + "a" + strings.Repeat(" )", d) + " ."
		}},
		{name: "nest-mixed", valid: true, text: "P = { [ ( a ) ] } .", nest: func(d int) string {
			open, shut := []string{"{ ", "[ x ", "( ", "(?! "}, []string{" }", " | y ]", " )", " )"}
			s := "a"
			for i := 0; i < d; i++ {
				s = open[i%4] + s + shut[i%4]
			}
			return "P = " + s + " ."
		}},
		{name: "empty", valid: true, text: ""},
		{name: "empty-group", valid: false, text: "A = b .\nB = ( ) .\nC = d .\n"},
		{name: "half-range", valid: false, text: "A = \"a\" … .\n"},
		{name: "unbalanced", valid: false, text: "A = { [ b } ] .\n"},
		{name: "no-stop", valid: false, text: "A = b | c"},
		{name: "dangling-bar", valid: false, text: "A = b | . C = d ."},
	},
}

// ---------------------------------------------------------------------------------------------
// mini-negation: TestNegation, TestNegationWithPattern, TestNegationWithDisjunction,
// TestNegationLookaheadError.  Negation of a literal, of a sequence and of a disjunction, each
// captured (repeatedly, together with further captures) into a pointer to a slice.
// ---------------------------------------------------------------------------------------------

type mnNgFile struct {
	Pos    lexer.Position
	Stmts  []*mnNgStmt `@@*`
	EndPos lexer.Position
	Tokens []lexer.Token
}

type mnNgStmt struct {
	Pos     lexer.Position
	Until   *[]string `(   "until" @!";"* @";"`
	Complex *[]string `  | "complex" @!( ";" String )* @";" @String`
	Either  *[]string `  | "either" @!( ";" | "," )* @( ";" | "," )`
	Stuff   []string  `  | "stuff" @Ident @!( "." | "#" ) @Ident "." )`
}

var worldMiniNegation = &world{
	name: "mini-negation", lexerKind: "text/scanner",
	build: func(o buildOpts) PH {
		opts := applyCommon(o, nil, nil)
		opts = append(opts, participle.Unquote("String"))
		return mustPH[mnNgFile](nil, opts...)
	},
	docs: []doc{
		{name: "all", valid: true, text: "until hello world ;\ncomplex hello ; world ; \"hey\"\neither a b ,\nstuff hello , world .\nuntil ;"},
		{name: "complex", valid: true, text: "complex hello world ; \"some-str\" complex ; \"s\" either ;"},
		{name: "unicode", valid: true, text: "until größe ✓ 1.5 'x' \"ünï\" ; stuff é … 名前 ."},
		flatDoc("flat-until", "until a", " b", " ;"),
		flatDoc("flat-complex", "complex x", " ; y", " ; \"s\""),
		flatDoc("flat-stmts", "", "either , ", ""),
		{name: "empty", valid: true, text: ""},
		{name: "stuff-dot", valid: false, text: "until a ; stuff hello . world . until b ;"},
		{name: "until-eof", valid: false, text: "until a ; until hello world"},
		{name: "complex-eof", valid: false, text: "complex hello ; world ;"},
		{name: "unknown", valid: false, text: "until a ; unless b ;"},
	},
}

// ---------------------------------------------------------------------------------------------
// all mini worlds
// ---------------------------------------------------------------------------------------------

var miniWorlds = []*world{
	worldMiniAccum,
	worldMiniAcross,
	worldMiniScalars,
	worldMiniPtrList,
	worldMiniEmptySeq,
	worldMiniSliceCap,
	worldMiniNetIP,
	worldMiniBoxed,
	worldMiniElided,
	worldMiniOptGroup,
	worldMiniDisj,
	worldMiniPosMixin,
	worldMiniLaGroup,
	worldMiniUnion,
	worldMiniNestedPos,
	worldMiniConverge,
	worldMiniEbnf,
	worldMiniNegation,
}
