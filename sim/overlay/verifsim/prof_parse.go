package main

import (
	"bytes"
	"fmt"
	"io"
	"os"
	"reflect"
	"sort"
	"strings"
	"unicode/utf8"

	"github.com/alecthomas/participle/v2"
	"github.com/alecthomas/participle/v2/lexer"
	"github.com/alecthomas/participle/v2/simrt"
)

// C06 — stream-fault robustness of Parse / ParseString / ParseBytes.

func init() { register(&profile{id: "C06", num: 6, name: "robust-parse", run: runRobustParse}) }

// coreWorlds are the hand-written worlds; miniWorlds port the grammar shapes of the repository's
// own parser tests; exampleWorlds port the grammars under _examples.
var coreWorlds = []*world{worldIni, worldExpr, worldHeredoc, worldBasic, worldConformance, worldCallbacks, worldDurations, worldMisc, worldTuple, worldLines, worldDashed, worldTokcap, worldNotes, worldAnon, worldDefs, worldShapes}

var robustWorlds = append(append(append(append([]*world{}, coreWorlds...), miniWorlds...), exampleWorlds...), exampleWorlds2...)

// pickAnyParser is pickWorld for the profiles whose property quantifies over every parser, also
// ones built from a grammar the library considers buggy.
func pickAnyParser() *world {
	if simrt.Choose(24) == 1 {
		return worldBuggy
	}
	return pickWorld()
}

// pickWorld draws a world: half of the time a core world, otherwise a mini or an example world.
func pickWorld() *world {
	if only := os.Getenv("VERIF_ONLY_WORLD"); only != "" {
		// diagnosis only (never set by the registered commands): restrict the draw to one world
		for _, w := range robustWorlds {
			if w.name == only {
				return w
			}
		}
	}
	switch simrt.Choose(4) {
	case 0, 1:
		return coreWorlds[simrt.Choose(len(coreWorlds))]
	case 2:
		return miniWorlds[simrt.Choose(len(miniWorlds))]
	default:
		if simrt.Choose(2) == 1 {
			return exampleWorlds2[simrt.Choose(len(exampleWorlds2))]
		}
		return exampleWorlds[simrt.Choose(len(exampleWorlds))]
	}
}

// lineCol recomputes line and column (1-based, column in runes) of a byte offset in d.
func lineCol(d string, off int) (line, col int) {
	line = 1 + strings.Count(d[:off], "\n")
	start := strings.LastIndex(d[:off], "\n") + 1
	col = 1 + utf8.RuneCountInString(d[start:off])
	return
}

type measured struct {
	res    callResult
	steps  int64
	depth  int
	capHit bool
	cap    int64
}

func measure(rc *RunCtx, d string, f func() (interface{}, error)) measured {
	stepCap := int64(100000) + 10000*int64(len(d)+1)
	base := simrt.Depth()
	simrt.OpBegin(stepCap)
	res := call(f)
	steps, depth, capHit := simrt.OpEnd(base)
	rc.agg.SimSteps += steps
	if steps > rc.agg.MaxOpSteps {
		rc.agg.MaxOpSteps = steps
	}
	if r := float64(steps) / float64(stepCap); r > rc.agg.MaxCapRatio {
		rc.agg.MaxCapRatio = r
	}
	if int64(depth) > rc.agg.MaxDepth {
		rc.agg.MaxDepth = int64(depth)
	}
	return measured{res, steps, depth, capHit, stepCap}
}

// discardSink is a trace writer that accepts everything and keeps nothing.
type discardSink struct{}

func (discardSink) Write(p []byte) (int, error) { return len(p), nil }

// budgetSink discards too, but gives up after 32 MB: a trace line costs real time proportional to
// the nesting depth, which the logical step cap does not see (one traced parse of 65 nested
// parentheses under the sql grammar's exponential backtracking took 12 minutes).  The cut-off is
// not a verdict: the run is dropped.
type budgetSink struct{ n int64 }

const traceBudgetMsg = "trace budget exceeded"

func (b *budgetSink) Write(p []byte) (int, error) {
	b.n += int64(len(p))
	if b.n > 32<<20 {
		panic(traceBudgetMsg)
	}
	return len(p), nil
}

func runRobustParse(rc *RunCtx) *Violation {
	var v *Violation
	simrt.RunInline(func() {
		if simrt.Choose(8) == 1 {
			v = robustDepth(rc)
		} else {
			v = robustOne(rc)
		}
	})
	cbPlan = nil
	participle.MaxIterations = defaultMaxIterations
	return v
}

var defaultMaxIterations = participle.MaxIterations

func robustOne(rc *RunCtx) *Violation {
	w := pickWorld()
	o, variant := drawBuild(w)
	delims := runDelims(rc.seed)
	var p PH
	simrt.ShuffleMaps = true
	pn := catch(func() { p = w.build(o) })
	simrt.ShuffleMaps = simrt.Choose(2) == 1 // map iteration order during lexing and parsing under the tape too
	if pn != "" {
		return &Violation{Signature: "parse/" + w.name + "/build-panic", Detail: pn}
	}
	rc.agg.Worlds[w.name]++
	x, dc := drawDoc(w, delims, bound(40, 400), true)
	d := x
	var fired []string
	if subBatch != "faultfree" && !w.verbatim {
		// bias faults to token boundaries of the undamaged document (right after a sign, a quote, an
		// opening bracket, ...)
		var hot []int
		if pre := lexCall(func() ([]lexer.Token, error) { return p.Lex("", strings.NewReader(x)) }); pre.Panic == "" {
			if pt, ok := pre.Val.([]lexer.Token); ok {
				hot = tokenEnds(pt)
			}
		}
		d, fired = deriveInput(rc, x, hot, allContentFaults)
	}
	filename := "in.txt"
	switch simrt.Choose(6) {
	case 1:
		filename = ""
	case 2:
		filename = fileNames[simrt.Choose(len(fileNames))]
	}
	// a documented tuning knob: the repetition limit (single task here, restored after the run)
	if simrt.Choose(6) == 1 {
		participle.MaxIterations = []int{3, 9, 40}[simrt.Choose(3)]
		variant += fmt.Sprintf(" MaxIterations=%d", participle.MaxIterations)
		rc.probe("small MaxIterations")
	}
	// parse options that must not change what the clauses are about
	var popts []participle.ParseOption
	// (short inputs only: a trace line costs real time proportional to the nesting depth, which the
	// logical step cap does not see — a 400-level document traced for 10^7 steps took 12 minutes)
	var traceSink *budgetSink
	if simrt.Choose(6) == 1 && len(d) <= 300 {
		traceSink = &budgetSink{}
		popts = append(popts, participle.Trace(traceSink))
		variant += " Trace"
		rc.probe("parsed with the Trace option (output discarded)")
	}
	// callback outcome plan
	var plan *cbPlanT
	if w.hasCallbacks && subBatch != "faultfree" && simrt.Choose(2) == 1 {
		plan = &cbPlanT{}
		n := 1 + simrt.Choose(8)
		for i := 0; i < n; i++ {
			o := 0
			if simrt.Choose(3) == 1 {
				o = 1 + simrt.Choose(3)
			}
			plan.outcomes = append(plan.outcomes, o)
		}
	}
	viol := func(clause, detail string) *Violation {
		return &Violation{Signature: "parse/" + w.name + "/" + clause,
			Detail: fmt.Sprintf("%s; world=%s variant=[%s] doc=%s filename=%q input=%s", detail, w.name, variant, dc.name, filename, quoteClip(d, 240)), Input: d}
	}
	resetPlan := func() {
		if plan != nil {
			plan.n = 0
			plan.foreign, plan.located, plan.nomatch = false, false, false
			cbPlan = plan
		} else {
			cbPlan = nil
		}
	}

	// what the lexer makes of D (same parser, same plan: lexing precedes parsing entirely, so mapper
	// invocations occupy the same leading slots of the plan)
	resetPlan()
	lexed := lexCall(func() ([]lexer.Token, error) { return p.Lex(filename, strings.NewReader(d)) })
	lexForeign := plan != nil && plan.foreign
	if lexed.Panic != "" {
		return viol("Lex-panic:"+sigNorm(lexed.Panic), "Parser.Lex panicked: "+lexed.Panic)
	}
	toks, _ := lexed.Val.([]lexer.Token)

	entries := []string{"ParseString", "ParseBytes", "Parse"}
	which := simrt.Choose(4) // 3: all of them
	outcome := ""
	errType := ""
	feature := ""
	var firstRes callResult
	for ei, entry := range entries {
		if which != 3 && which != ei {
			continue
		}
		var rd *SimReader
		resetPlan()
		m := measure(rc, d, func() (interface{}, error) {
			switch entry {
			case "ParseString":
				return p.ParseString(filename, d, popts...)
			case "ParseBytes":
				// the buffer is the caller's and is refilled as soon as the call has returned
				buf := []byte(d)
				v, err := p.ParseBytes(filename, buf, popts...)
				scribble(buf)
				return v, err
			default:
				if simrt.Choose(4) == 1 {
					// a standard-library reader the caller has already read a header from
					const skipped = "#!header the caller consumed\n"
					switch simrt.Choose(3) {
					case 0:
						sr := strings.NewReader(skipped + d)
						io.CopyN(io.Discard, sr, int64(len(skipped)))
						return p.Parse(filename, sr, popts...)
					case 1:
						br := bytes.NewReader([]byte(skipped + d))
						io.CopyN(io.Discard, br, int64(len(skipped)))
						return p.Parse(filename, br, popts...)
					default:
						return p.Parse(filename, io.NewSectionReader(strings.NewReader(skipped+d+"<<tail>>"), int64(len(skipped)), int64(len(d))), popts...)
					}
				}
				rd = newSimReader(rc, d, tokenEnds(toks), readerOpts{allowError: subBatch != "faultfree" && simrt.Choose(6) == 1})
				return p.Parse(filename, rd, popts...)
			}
		})
		if rd != nil {
			rd.account(rc)
		}
		res := m.res
		if traceSink != nil {
			traceSink.n = 0
		}
		if strings.HasPrefix(res.Panic, traceBudgetMsg) {
			rc.probe("traced parse cut off by the trace byte budget (run dropped)")
			rc.agg.Discarded++
			return nil
		}
		if firstRes.Val == nil && firstRes.Err == nil {
			firstRes = res
		}
		simrt.HashEvent(hashString(entry + res.desc()))
		// clause 1: returns
		if m.capHit {
			return viol(entry+"/nontermination", fmt.Sprintf("%s did not return within %d logical steps", entry, m.cap))
		}
		if res.Panic != "" {
			return viol(entry+"/panic:"+sigNorm(res.Panic), entry+" panicked: "+res.Panic)
		}
		readErr := rd != nil && rd.errAfter >= 0
		// clause 2: shape
		if res.Err == nil {
			if isNil(res.Val) {
				return viol(entry+"/nil-nil", entry+" returned a nil AST and a nil error")
			}
			outcome = "ast"
			if plan != nil && (plan.foreign || plan.located) {
				rc.probe("callback error swallowed (parse succeeded although a callback returned an error)")
			}
			continue
		}
		if readErr {
			outcome = "read-error"
			continue // clause 5: only 1-2 apply; the shape of the error is the reader's
		}
		if lexed.Err != nil {
			outcome = "lex-error"
			if !isNil(res.Val) {
				return viol(entry+"/lex-failure-with-AST", fmt.Sprintf("lexing fails (%s) but %s returned a non-nil AST %s", errDesc(lexed.Err), entry, clip(valDesc(res.Val), 300)))
			}
			if errDesc(res.Err) != errDesc(lexed.Err) {
				return viol(entry+"/lex-error-differs", fmt.Sprintf("Parser.Lex fails with %s but %s fails with %s", errDesc(lexed.Err), entry, errDesc(res.Err)))
			}
		} else {
			outcome = "parse-error"
			if isNil(res.Val) {
				return viol(entry+"/parse-failure-without-AST", fmt.Sprintf("lexing succeeds but %s returned a nil AST with error %s", entry, errDesc(res.Err)))
			}
			if zero := reflect.New(reflect.TypeOf(res.Val).Elem()).Interface(); render(zero, true) != render(res.Val, true) {
				rc.probe("partial AST non-empty")
			}
		}
		// clause 3: well-formed located error
		foreign := (plan != nil && plan.foreign) || (lexed.Err != nil && lexForeign) || (dc.foreignErr && strings.Contains(safeError(res.Err), "sim: shape"))
		if foreign {
			rc.probe("foreign callback error injected (clause 3 not applied)")
			errType = fmt.Sprintf("%T", res.Err)
			continue
		}
		perr, ok := res.Err.(participle.Error)
		if !ok {
			return viol(entry+"/error-not-participle.Error", fmt.Sprintf("error of type %T does not implement participle.Error: %v", res.Err, res.Err))
		}
		errType = fmt.Sprintf("%T", res.Err)
		var pos lexer.Position
		var msg, text string
		if pn := catch(func() { pos = perr.Position(); msg = perr.Message(); text = res.Err.Error() }); pn != "" {
			return viol(entry+"/error-rendering-panics:"+sigNorm(pn), fmt.Sprintf("Position() / Message() / Error() of the returned %T panicked: %s", res.Err, pn))
		}
		if pos.Filename != filename {
			return viol(entry+"/error-filename", fmt.Sprintf("error position %s carries filename %q, supplied %q (error %T: %v)", pos.GoString(), pos.Filename, filename, res.Err, res.Err))
		}
		if pos.Offset < 0 || pos.Offset > len(d) {
			return viol(entry+"/error-offset-out-of-bounds", fmt.Sprintf("error offset %d outside [0,%d] (error %T: %v)", pos.Offset, len(d), res.Err, res.Err))
		}
		wl, wc := lineCol(d, pos.Offset)
		if pos.Line != wl || pos.Column != wc {
			return viol(entry+"/error-line-col", fmt.Sprintf("error position %s: offset %d of the input is line %d column %d (error %T: %v)", pos.GoString(), pos.Offset, wl, wc, res.Err, res.Err))
		}
		want := fmt.Sprintf("%d:%d: %s", pos.Line, pos.Column, msg)
		if filename != "" {
			want = filename + ":" + want
		}
		if got := text; got != want {
			return viol(entry+"/error-text", fmt.Sprintf("Error() = %q, want position prefix + Message() = %q", got, want))
		}
		if ut, ok := res.Err.(*participle.UnexpectedTokenError); ok {
			found := false
			for _, t := range toks {
				if t.Pos.Offset == pos.Offset && t == ut.Unexpected {
					found = true
				}
			}
			if !found {
				return viol(entry+"/unexpected-token-not-in-input", fmt.Sprintf("UnexpectedTokenError reports %s but Parser.Lex has no such token at offset %d (tokens: %s)", ut.Unexpected.GoString(), pos.Offset, clip(tokensDesc(toks), 300)))
			}
		}
		switch {
		case pos.Offset == len(d):
			feature = "at-eof"
			rc.probe("error at offset == len(D)")
		case len(toks) > 0 && pos.Offset <= toks[0].Pos.Offset:
			feature = "at-first-token"
		default:
			feature = "mid"
		}
		if pos.Offset < len(d) && !utf8.RuneStart(d[pos.Offset]) {
			rc.probe("error position inside a multi-byte rune")
		}
	}
	// an error value belongs to the call that returned it: it reads the same after the parser has
	// been used again (same input under another file name, so the later call fails at the very
	// same grammar element)
	if firstRes.Err != nil && plan == nil && simrt.Choose(3) == 1 {
		before := errDesc(firstRes.Err)
		later := "later-" + filename
		m := measure(rc, d, func() (interface{}, error) { return p.ParseString(later, d, popts...) })
		if after := errDesc(firstRes.Err); after != before && !m.capHit && !strings.HasPrefix(m.res.Panic, traceBudgetMsg) {
			return viol("error-changes-after-later-call", fmt.Sprintf("the error a call returned read %s; after one more ParseString(%q, same input) on the same parser the same error value reads %s", before, later, after))
		}
		rc.probe("returned error re-read after a later call on the same parser")
	}
	sort.Strings(fired)
	invalidDoc := !dc.valid
	rc.nontriv = (len(fired) > 0 || invalidDoc || plan != nil) && len(toks) != 1 && feature != "at-first-token" && (outcome != "ast" || len(toks) > 2)
	rc.agg.Outcomes[outcome]++
	rc.keyAdd(w.name, variant, strings.Join(fired, ","), outcome, errType, feature, d)
	if plan != nil {
		rc.keyAdd(fmt.Sprint(plan.outcomes))
		rc.fault("callback-outcome-plan")
	}
	rc.note("kind", "robustness")
	rc.note("world", w.name)
	rc.note("variant", variant)
	rc.note("doc", dc.name)
	rc.note("delivered", clip(d, 160))
	rc.note("faults", fired)
	rc.note("outcome", outcome)
	rc.note("error", clip(errDesc(firstRes.Err), 200))
	if plan != nil {
		rc.note("callback_outcomes", plan.outcomes)
	}
	return nil
}

// robustDepth: logical recursion depth must not grow with the length of flat input and must grow
// at most linearly with bracket nesting.
func robustDepth(rc *RunCtx) *Violation {
	w := pickWorld()
	o, variant := drawBuild(w)
	delims := runDelims(rc.seed)
	var p PH
	if pn := catch(func() { p = w.build(o) }); pn != "" {
		return &Violation{Signature: "parse/" + w.name + "/build-panic", Detail: pn}
	}
	var flat, nested []*doc
	for i := range w.docs {
		if w.docs[i].unitLen > 0 {
			flat = append(flat, &w.docs[i])
		}
		if w.docs[i].nest != nil {
			nested = append(nested, &w.docs[i])
		}
	}
	rc.agg.Worlds[w.name]++
	parse := func(text string) measured {
		text = instantiate(text, delims)
		return measure(rc, text, func() (interface{}, error) { return p.ParseString("in.txt", text) })
	}
	sizes := []int{8, 32, 128}
	if rc.agg != nil && simrt.Choose(8) == 1 {
		sizes = append(sizes, bound(512, 2048))
	}
	if len(nested) > 0 && simrt.Choose(2) == 1 {
		dc := nested[simrt.Choose(len(nested))]
		dsz := []int{4, 16, 64, 150}
		n := dsz[simrt.Choose(len(dsz))]
		viol := func(clause, detail string) *Violation {
			return &Violation{Signature: "parse/" + w.name + "/depth/" + clause, Detail: fmt.Sprintf("%s; world=%s variant=[%s] doc=%s nesting=%d", detail, w.name, variant, dc.name, n), Input: fmt.Sprintf("%s nest(%d)", dc.name, n)}
		}
		m1, m2 := parse(dc.nest(1)), parse(dc.nest(2))
		a, b := parse(dc.nest(n)), parse(dc.nest(2*n))
		for _, m := range []measured{m1, m2, a, b} {
			if m.res.Panic != "" {
				return viol("panic:"+sigNorm(m.res.Panic), "parsing a nested specimen panicked: "+m.res.Panic)
			}
			if m.capHit {
				return viol("nontermination", fmt.Sprintf("nested specimen did not parse within %d logical steps", m.cap))
			}
			if m.res.Err != nil {
				return nil // the fixture does not parse on this tree: not this clause's business
			}
		}
		perLevel := m2.depth - m1.depth
		if perLevel < 1 {
			perLevel = 1
		}
		growth := b.depth - a.depth
		if growth > 4*perLevel*n {
			return viol("superlinear", fmt.Sprintf("logical depth grew by %d frames from nesting %d to %d; one level costs %d frames on the reference specimens (bound: 4x linear)", growth, n, 2*n, perLevel))
		}
		rc.probe("nested specimen depth measured")
		rc.nontriv = true
		rc.keyAdd("depth-nested", w.name, variant, dc.name, fmt.Sprint(n))
		rc.note("kind", "depth (nested)")
		rc.note("world", w.name)
		rc.note("doc", dc.name)
		rc.note("nesting", n)
		rc.note("depth(n),depth(2n),frames/level", []int{a.depth, b.depth, perLevel})
		return nil
	}
	if len(flat) == 0 {
		return nil
	}
	dc := flat[simrt.Choose(len(flat))]
	n := sizes[simrt.Choose(len(sizes))]
	viol := func(clause, detail string) *Violation {
		return &Violation{Signature: "parse/" + w.name + "/depth/" + clause, Detail: fmt.Sprintf("%s; world=%s variant=[%s] doc=%s unit repeated %d and %d times", detail, w.name, variant, dc.name, n, 2*n), Input: fmt.Sprintf("%s x%d", dc.name, n)}
	}
	a, b := parse(dc.expand(n)), parse(dc.expand(2*n))
	for _, m := range []measured{a, b} {
		if m.res.Panic != "" {
			return viol("panic:"+sigNorm(m.res.Panic), "parsing flat input panicked: "+m.res.Panic)
		}
		if m.capHit {
			return viol("nontermination", fmt.Sprintf("flat input did not parse within %d logical steps", m.cap))
		}
		if m.res.Err != nil {
			return nil
		}
	}
	rc.fault("dup-flat-unit")
	if growth := b.depth - a.depth; growth >= n/2 {
		return viol("flat-input-recursion", fmt.Sprintf("logical recursion depth grew by %d frames (from %d to %d) when the flat unit was repeated %d more times: flat input must need bounded stack", growth, a.depth, b.depth, n))
	}
	rc.probe("flat input depth measured")
	rc.nontriv = true
	rc.keyAdd("depth-flat", w.name, variant, dc.name, fmt.Sprint(n))
	rc.note("kind", "depth (flat)")
	rc.note("world", w.name)
	rc.note("doc", dc.name)
	rc.note("unit_repeats", n)
	rc.note("depth(n),depth(2n)", []int{a.depth, b.depth})
	return nil
}
