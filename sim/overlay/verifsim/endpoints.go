package main

import (
	"errors"
	"fmt"
	"io"
	"strings"
	"unicode/utf8"

	"github.com/alecthomas/participle/v2/lexer"
	"github.com/alecthomas/participle/v2/simrt"
)

// ---------------------------------------------------------------------------------------------
// SimReader: an io.Reader whose delivery schedule and failures are decided by the tape.
// ---------------------------------------------------------------------------------------------

var errInjectedRead = errors.New("sim: injected read error")

type SimReader struct {
	data        []byte
	off         int
	chunks      []int // sizes of successive successful reads (after them: whatever is asked for)
	ci          int
	stutterAt   map[int]int // read-call index -> number of (0,nil) results still to deliver there
	calls       int
	eofWithData bool
	errAfter    int // deliver this many bytes, then fail with errInjectedRead; -1: never
	reads       int
	shape       string
	splitRune   bool
	splitToken  bool
	bounds      []int // offsets at which successful reads ended
}

type namedSimReader struct {
	*SimReader
	name string
}

func (n namedSimReader) Name() string { return n.name }

func (r *SimReader) Read(p []byte) (int, error) {
	simrt.YieldPoint(simrt.SiteRead)
	r.calls++
	if len(p) == 0 {
		return 0, nil
	}
	if k := r.stutterAt[r.calls]; k > 0 {
		r.stutterAt[r.calls] = 0
		return 0, nil
	}
	limit := len(r.data)
	if r.errAfter >= 0 && r.errAfter < limit {
		limit = r.errAfter
	}
	if r.off >= limit {
		if r.errAfter >= 0 {
			return 0, errInjectedRead
		}
		return 0, io.EOF
	}
	n := limit - r.off
	if r.ci < len(r.chunks) {
		if r.chunks[r.ci] < n {
			n = r.chunks[r.ci]
		}
		r.ci++
	}
	if n > len(p) {
		n = len(p)
	}
	copy(p, r.data[r.off:r.off+n])
	r.off += n
	r.reads++
	r.bounds = append(r.bounds, r.off)
	if r.off >= limit {
		if r.errAfter >= 0 {
			if r.eofWithData {
				return n, errInjectedRead
			}
			return n, nil
		}
		if r.eofWithData {
			return n, io.EOF
		}
	}
	return n, nil
}

// delivered returns the bytes handed out so far.
func (r *SimReader) delivered() string { return string(r.data[:r.off]) }

// readerOpts selects which delivery behaviours may be drawn.
type readerOpts struct {
	allowError bool
}

// newSimReader draws a delivery schedule for d.  tokenEnds are byte offsets at which tokens of d end
// (used to aim splits inside tokens); it may be nil.
func newSimReader(rc *RunCtx, d string, tokenEnds []int, o readerOpts) *SimReader {
	r := &SimReader{data: []byte(d), errAfter: -1, stutterAt: map[int]int{}}
	n := len(d)
	switch simrt.Choose(6) {
	case 0:
		r.shape = "whole"
	case 1:
		r.shape = "bytewise"
		for i := 0; i < n; i++ {
			r.chunks = append(r.chunks, 1)
		}
	case 2:
		r.shape = "random-chunks"
		for left := n; left > 0; {
			c := 1 + simrt.Choose(min(left, 64))
			r.chunks = append(r.chunks, c)
			left -= c
		}
	case 3:
		// split inside a multi-byte rune if there is one
		r.shape = "split-in-rune"
		var cands []int
		for i := 0; i < n; {
			_, sz := utf8.DecodeRuneInString(d[i:])
			if sz > 1 {
				cands = append(cands, i+1+simrt.Choose(sz-1))
			}
			i += sz
		}
		if len(cands) > 0 {
			at := cands[simrt.Choose(len(cands))]
			r.chunks = []int{at}
			r.splitRune = true
		}
	case 4:
		// split strictly inside a token
		r.shape = "split-in-token"
		var cands []int
		prev := 0
		for _, e := range tokenEnds {
			if e-prev >= 2 && e <= n {
				cands = append(cands, prev+1+simrt.Choose(e-prev-1))
			}
			prev = e
		}
		if len(cands) > 0 {
			k := 1 + simrt.Choose(min(3, len(cands)))
			last := 0
			for i := 0; i < k; i++ {
				at := cands[simrt.Choose(len(cands))]
				if at > last {
					r.chunks = append(r.chunks, at-last)
					last = at
				}
			}
			r.splitToken = len(r.chunks) > 0
		}
	case 5:
		r.shape = "two-halves"
		if n >= 2 {
			r.chunks = []int{1 + simrt.Choose(n-1)}
		}
	}
	if simrt.Choose(4) == 1 {
		k := 1 + simrt.Choose(3)
		for i := 0; i < k; i++ {
			r.stutterAt[1+simrt.Choose(len(r.chunks)+3)] = 1
		}
	}
	if simrt.Choose(3) == 1 {
		r.eofWithData = true
	}
	if o.allowError && simrt.Choose(2) == 1 {
		r.errAfter = simrt.Choose(n + 1)
	}
	return r
}

// account records which delivery faults actually happened.
func (r *SimReader) account(rc *RunCtx) {
	if r.reads >= 2 {
		rc.fault("chunk")
	}
	stuttered := false
	for c, left := range r.stutterAt {
		if left == 0 && c <= r.calls {
			stuttered = true
		}
	}
	if stuttered {
		rc.fault("stutter")
	}
	if r.eofWithData && r.off >= len(r.data) && r.errAfter < 0 && r.reads > 0 {
		rc.fault("eof-with-data")
	}
	if r.errAfter >= 0 && r.calls > 0 && r.off >= min(r.errAfter, len(r.data)) {
		rc.fault("read-error")
	}
	if r.splitRune && r.reads >= 2 {
		rc.probe("chunk boundary inside multi-byte rune")
	}
	if r.splitToken && r.reads >= 2 {
		rc.probe("chunk boundary inside a token")
	}
}

func min(a, b int) int {
	if a < b {
		return a
	}
	return b
}

// ---------------------------------------------------------------------------------------------
// Content faults: derive the delivered byte string D from a corpus document X.
// ---------------------------------------------------------------------------------------------

type contentFaults struct {
	earlyEOF, corrupt, drop, dup, reorder, reencode bool
}

var allContentFaults = contentFaults{true, true, true, true, true, true}

// deriveInput applies 0-3 content faults to x.  hot lists byte offsets where a fault is most
// interesting (inside tokens, right after a state push, right before a closing delimiter).
func deriveInput(rc *RunCtx, x string, hot []int, allow contentFaults) (string, []string) {
	var fired []string
	// 0 faults with probability 1/2, 1 with 1/4, 2-3 otherwise
	nf := 0
	switch simrt.Choose(8) {
	case 0, 2, 4, 6:
		nf = 0
	case 1, 3:
		nf = 1
	case 5:
		nf = 2
	case 7:
		nf = 3
	}
	d := x
	pick := func(n int) int {
		if n <= 0 {
			return 0
		}
		if len(hot) > 0 && simrt.Choose(2) == 1 {
			h := hot[simrt.Choose(len(hot))]
			if h < n {
				return h
			}
		}
		if n > 40 && simrt.Choose(4) == 1 {
			return n - 1 - simrt.Choose(32) // damage close to the end of the input
		}
		return simrt.Choose(n)
	}
	for i := 0; i < nf; i++ {
		kind := simrt.Choose(9)
		switch {
		case kind == 8 && allow.earlyEOF && len(hot) > 0:
			// the input ends exactly at a token boundary of the undamaged document (right after a
			// sign, an opening quote or bracket, a keyword): the commonest way for a stream to end
			// early, so it gets a slot of its own besides the arbitrary cut below
			if k := hot[simrt.Choose(len(hot))]; k < len(d) {
				d = d[:k]
				fired = append(fired, "early-eof")
			}
		case kind == 7 && allow.earlyEOF && allow.corrupt:
			// a transfer that went bad and then broke off: one damaged byte, a little more text,
			// and the end in the middle of a multi-byte character
			at := pick(len(d) + 1)
			for at > 0 && at < len(d) && !utf8.RuneStart(d[at]) {
				at--
			}
			bad := []string{"\x01", "\x7f", "`", "\\", "#", "@", "\xff", "\x00"}[simrt.Choose(8)]
			const filler = "abcdefghijklmnopqrstuvwxyz012345"
			tail := []string{"\xe8\xaa", "\xf0\x9d\x9b", "\xc3", "\xe8", "\xf0\x9d", "\xaa\x9e"}[simrt.Choose(6)]
			d = d[:at] + bad + filler[:simrt.Choose(len(filler))] + tail
			fired = append(fired, "torn-tail")
		case kind == 6 && allow.reencode && len(d) > 0:
			// a very long token: a run of one (possibly multi-byte) character inserted into the text
			at := pick(len(d))
			for at > 0 && !utf8.RuneStart(d[at]) {
				at--
			}
			ch := []string{"a", "é", "語", "𝛑", "0", "_"}[simrt.Choose(6)]
			d = d[:at] + strings.Repeat(ch, 8+simrt.Choose(48)) + d[at:]
			fired = append(fired, "stretch")
		case kind == 5 && allow.reencode:
			// what a file picks up on its way through other tools: a byte order mark, CR LF line
			// ends, a legacy single-byte encoding of one non-ASCII character
			switch simrt.Choose(4) {
			case 3:
				// zero padding at the end (block-padded files, C strings)
				d += strings.Repeat("\x00", 1+simrt.Choose(3))
				fired = append(fired, "nul-pad")
			case 0:
				if !strings.HasPrefix(d, "\xef\xbb\xbf") {
					d = "\xef\xbb\xbf" + d
					fired = append(fired, "bom")
				}
			case 1:
				if strings.Contains(d, "\n") && !strings.Contains(d, "\r\n") {
					d = strings.ReplaceAll(d, "\n", "\r\n")
					fired = append(fired, "crlf")
				}
			case 2:
				for i := 0; i < len(d); {
					r, sz := utf8.DecodeRuneInString(d[i:])
					if sz > 1 && r < 0x100 {
						d = d[:i] + string([]byte{byte(r)}) + d[i+sz:]
						fired = append(fired, "latin1")
						break
					}
					i += sz
				}
			}
		case kind == 0 && allow.earlyEOF:
			k := pick(len(d) + 1)
			if k < len(d) {
				d = d[:k]
				fired = append(fired, "early-eof")
			}
		case kind == 1 && allow.corrupt && len(d) > 0:
			cnt := 1 + simrt.Choose(3)
			b := []byte(d)
			changed := false
			for j := 0; j < cnt; j++ {
				at := pick(len(b))
				var nb byte
				switch simrt.Choose(5) {
				case 0:
					nb = b[at] ^ (1 << uint(simrt.Choose(8)))
				case 1:
					nb = 0
				case 2:
					nb = byte(0x80 + simrt.Choose(0x80))
				case 3:
					const delimiters = "\"'{}()[]<>\\$;=\n`"
					nb = delimiters[simrt.Choose(len(delimiters))]
				case 4:
					nb = byte(simrt.Choose(256))
				}
				if nb != b[at] {
					b[at] = nb
					changed = true
				}
			}
			if changed {
				d = string(b)
				fired = append(fired, "corrupt")
			}
		case kind >= 2 && kind <= 4 && len(d) >= 2:
			// chunk-level faults: cut d into a few pieces
			a := pick(len(d))
			ln := 1 + simrt.Choose(min(16, len(d)-a))
			piece := d[a : a+ln]
			switch {
			case kind == 2 && allow.drop:
				d = d[:a] + d[a+ln:]
				fired = append(fired, "drop")
			case kind == 3 && allow.dup:
				d = d[:a+ln] + piece + d[a+ln:]
				fired = append(fired, "dup")
			case kind == 4 && allow.reorder && a+2*ln <= len(d):
				next := d[a+ln : a+2*ln]
				if next != piece {
					d = d[:a] + next + piece + d[a+2*ln:]
					fired = append(fired, "reorder")
				}
			}
		}
	}
	for _, f := range fired {
		rc.fault(f)
	}
	return d, fired
}

// ---------------------------------------------------------------------------------------------
// SimWriter: the Trace sink.
// ---------------------------------------------------------------------------------------------

var errInjectedWrite = errors.New("sim: injected write error")

type SimWriter struct {
	buf      strings.Builder
	mode     int // 0 ok, 1 error after k bytes, 2 short writes
	k        int
	failed   bool
	shorted  bool
	accepted int
	total    int
}

func newSimWriter() *SimWriter {
	w := &SimWriter{}
	w.mode = simrt.Choose(3)
	if w.mode != 0 {
		w.k = simrt.Choose(400)
	}
	return w
}

func (w *SimWriter) Write(p []byte) (int, error) {
	simrt.YieldPoint(simrt.SiteWrite)
	w.total += len(p)
	if w.total > 24<<20 {
		// a traced parse that writes tens of megabytes is cut off like one that exceeds the stall
		// guard (formatting deep indentation costs real time that logical steps do not see)
		panic(simrt.CapExceeded{Steps: int64(w.total)})
	}
	switch w.mode {
	case 1:
		if w.accepted+len(p) > w.k {
			n := w.k - w.accepted
			if n < 0 {
				n = 0
			}
			w.keep(p[:n])
			w.accepted += n
			w.failed = true
			return n, errInjectedWrite
		}
	case 2:
		if w.accepted >= w.k && len(p) > 1 {
			n := len(p) / 2
			w.keep(p[:n])
			w.accepted += n
			w.shorted = true
			return n, io.ErrShortWrite
		}
	}
	w.keep(p)
	w.accepted += len(p)
	return len(p), nil
}

// keep stores at most the first 64 KiB of the trace (a traced parse that backtracks a lot writes
// hundreds of megabytes; only the byte count matters to the clauses).
func (w *SimWriter) keep(p []byte) {
	if room := 1<<16 - w.buf.Len(); room > 0 {
		if len(p) > room {
			p = p[:room]
		}
		w.buf.Write(p)
	}
}

// ---------------------------------------------------------------------------------------------
// SimDef: interposed lexer definition.
// ---------------------------------------------------------------------------------------------

// narrowDef hides the LexString / LexBytes fast paths of a definition, forcing Parser.ParseString
// and ParseBytes onto the reader path.
type narrowDef struct{ inner lexer.Definition }

func (n narrowDef) Symbols() map[string]lexer.TokenType { return n.inner.Symbols() }
func (n narrowDef) Lex(filename string, r io.Reader) (lexer.Lexer, error) {
	return n.inner.Lex(filename, r)
}

// failingLexer fails at its k-th Next call.
type failingLexer struct {
	inner lexer.Lexer
	k     int
	n     int
	fired bool
}

func (f *failingLexer) Next() (lexer.Token, error) {
	simrt.YieldPoint(simrt.SiteSourceNext)
	if f.n == f.k {
		f.n++
		f.fired = true
		return lexer.Token{}, errSource
	}
	f.n++
	return f.inner.Next()
}

// yieldingLexer only adds a natural yield point at every Next.
type yieldingLexer struct{ inner lexer.Lexer }

func (y yieldingLexer) Next() (lexer.Token, error) {
	simrt.YieldPoint(simrt.SiteSourceNext)
	return y.inner.Next()
}

func tokensDesc(toks []lexer.Token) string {
	var b strings.Builder
	for i, t := range toks {
		if i > 0 {
			b.WriteByte(' ')
		}
		fmt.Fprintf(&b, "%d:%q@%d:%d:%d", t.Type, t.Value, t.Pos.Offset, t.Pos.Line, t.Pos.Column)
	}
	return b.String()
}
