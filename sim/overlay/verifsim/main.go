// Command verifsim is the simulation binary: real participle code (instrumented copy) plus the
// simulated world around it.  It is driven by /verif/sim/driver.
package main

import (
	"encoding/json"
	"flag"
	"fmt"
	"os"
	"regexp"
	"runtime/pprof"
	"strings"
	"sync/atomic"
	"time"

	"github.com/alecthomas/participle/v2/lexer"
	"github.com/alecthomas/participle/v2/simrt"
)

type profile struct {
	id   string
	num  uint64
	name string
	run  func(rc *RunCtx) *Violation
	// warm, if set, runs once per process before the first run, with the choice tape off
	warm   func()
	warmed bool
}

var profiles = map[string]*profile{}

func register(p *profile) { profiles[p.id] = p }

func positionOf(err error) (lexer.Position, bool) {
	if p, ok := err.(interface{ Position() lexer.Position }); ok {
		return p.Position(), true
	}
	return lexer.Position{}, false
}

// raceLog watches the race detector's log file of this process.
type raceLog struct {
	path string
	off  int64
}

func newRaceLog() *raceLog {
	if !simrt.RaceBuild {
		return nil
	}
	for _, kv := range strings.Fields(os.Getenv("GORACE")) {
		if strings.HasPrefix(kv, "log_path=") {
			return &raceLog{path: fmt.Sprintf("%s.%d", strings.TrimPrefix(kv, "log_path="), os.Getpid())}
		}
	}
	return nil
}

// fresh returns the text the detector wrote since the last call.
func (r *raceLog) fresh() string {
	if r == nil {
		return ""
	}
	f, err := os.Open(r.path)
	if err != nil {
		return ""
	}
	defer f.Close()
	st, err := f.Stat()
	if err != nil || st.Size() <= r.off {
		return ""
	}
	buf := make([]byte, st.Size()-r.off)
	n, _ := f.ReadAt(buf, r.off)
	r.off += int64(n)
	return string(buf[:n])
}

func oneRun(p *profile, agg *Agg, seed uint64, index int64, tapeIn []uint32, replay bool, wantSample bool, rl *raceLog) *Violation {
	rc := &RunCtx{agg: agg, index: index, seed: seed, faults: map[string]int64{}, probes: map[string]int64{},
		sample: map[string]interface{}{}, wantSamp: wantSample}
	if p.warm != nil && !p.warmed {
		p.warmed = true
		p.warm()
	}
	if replay {
		simrt.StartReplay(tapeIn)
	} else {
		simrt.StartSearch(seed)
	}
	v := p.run(rc)
	tape, hash, _, _ := simrt.Stop()
	simrt.ShuffleMaps = false
	if txt := rl.fresh(); txt != "" && v == nil {
		if sig, detail := raceSignature(txt); sig != "" {
			agg.RaceReports++
			v = &Violation{Signature: "race/" + sig, Detail: detail}
		}
	}
	agg.Digest += simrt.Mix(uint64(index), hash, 77)
	rc.commit()
	if v != nil {
		v.Property = p.id
		v.Seed = seed
		v.RunIndex = index
		v.Tape = append([]uint32(nil), tape...)
	}
	return v
}

func main() {
	if len(os.Args) < 2 {
		fmt.Fprintln(os.Stderr, "usage: verifsim worker|replay ...")
		os.Exit(2)
	}
	switch os.Args[1] {
	case "worker":
		workerMain(os.Args[2:])
	case "replay":
		replayMain(os.Args[2:])
	case "worldcheck":
		worldCheckMain(os.Args[2:])
	case "emitfixtures":
		emitFixturesMain(os.Args[2:])
	case "refdigest":
		refDigestMain(os.Args[2:])
	case "refvariants":
		refVariantsMain()
	default:
		fmt.Fprintln(os.Stderr, "unknown command", os.Args[1])
		os.Exit(2)
	}
}

func workerMain(args []string) {
	fs := flag.NewFlagSet("worker", flag.ExitOnError)
	prop := fs.String("prop", "", "property id")
	seed := fs.Uint64("seed", 1, "batch seed")
	from := fs.Int64("from", 0, "first run index")
	stride := fs.Int64("stride", 1, "run index stride")
	count := fs.Int64("count", 1<<62, "maximum number of runs")
	seconds := fs.Float64("seconds", 0, "wall-clock budget (0: none); read between runs only")
	out := fs.String("out", "", "result file")
	maxViol := fs.Int("max-violations", 3, "stop after this many violations")
	samples := fs.Int("samples", 4, "number of runs written out as samples")
	sub := fs.String("sub", "", "sub-batch selector passed to the profile")
	knownPath := fs.String("known", "", "file listing known findings (counted, not reported)")
	tier := fs.String("tier", "quick", "quick or thorough: thorough widens the per-run bounds")
	fs.Parse(args)
	type knownT struct {
		Signature      string `json:"signature"`
		Input          string `json:"input"`
		SignatureRegex string `json:"signature_regex"`
		InputRegex     string `json:"input_regex"`
		sigRe, inRe    *regexp.Regexp
	}
	var known []knownT
	if *knownPath != "" {
		if b, err := os.ReadFile(*knownPath); err == nil {
			json.Unmarshal(b, &known)
		}
		for i := range known {
			if known[i].SignatureRegex != "" {
				known[i].sigRe = regexp.MustCompile(known[i].SignatureRegex)
			}
			if known[i].InputRegex != "" {
				known[i].inRe = regexp.MustCompile(known[i].InputRegex)
			}
		}
	}
	p := profiles[*prop]
	if p == nil {
		fmt.Fprintln(os.Stderr, "unknown property", *prop)
		os.Exit(2)
	}
	subBatch = *sub
	thorough = *tier == "thorough"
	agg := newAgg(p.id)
	rl := newRaceLog()
	start := time.Now()
	var n int64
	// real-time watchdog over single runs: a run that takes minutes is machinery trouble (time spent
	// where the logical step cap cannot see it); say which run it is instead of hanging silently
	var curIdx, curSince atomic.Int64
	curIdx.Store(-1)
	go func() {
		warned := int64(-1)
		for {
			time.Sleep(5 * time.Second)
			idx, since := curIdx.Load(), curSince.Load()
			if idx < 0 {
				continue
			}
			d := time.Since(time.Unix(0, since))
			if d > 2*time.Minute && warned != idx {
				warned = idx
				fmt.Fprintf(os.Stderr, "verifsim: run %d of property %s (sub-batch %q, tier %s) has been running for %s of real time\n", idx, *prop, *sub, *tier, d.Round(time.Second))
			}
			if d > 12*time.Minute {
				fmt.Fprintf(os.Stderr, "verifsim: giving up on run %d after %s; goroutines:\n", idx, d.Round(time.Second))
				pprof.Lookup("goroutine").WriteTo(os.Stderr, 1)
				os.Exit(5)
			}
		}
	}()
	for idx := *from; n < *count; idx += *stride {
		if *seconds > 0 && n%8 == 0 && time.Since(start).Seconds() > *seconds {
			break
		}
		rs := simrt.Mix(*seed, p.num, uint64(idx))
		if n == 0 {
			agg.FirstSeed = rs
		}
		agg.LastSeed = rs
		// sample some early runs and a few later ones
		want := len(agg.Samples) < *samples && (n < int64(*samples)/2 || n%97 == 0)
		t0 := time.Now()
		curSince.Store(t0.UnixNano())
		curIdx.Store(idx)
		v := oneRun(p, agg, rs, idx, nil, false, want, rl)
		curIdx.Store(-1)
		if d := time.Since(t0).Seconds(); d > agg.SlowestRunS {
			agg.SlowestRunS, agg.SlowestRun = d, idx
		}
		n++
		if agg.Stalled {
			break
		}
		if v != nil {
			v.Sub = subBatch
			isKnown := false
			for _, k := range known {
				sigOK := k.Signature == v.Signature || (k.sigRe != nil && k.sigRe.MatchString(v.Signature))
				inOK := (k.Input == "" && k.inRe == nil) || (k.Input != "" && k.Input == v.Input) || (k.inRe != nil && k.inRe.MatchString(v.Input))
				if sigOK && inOK {
					agg.Known[k.Signature+k.SignatureRegex+"|"+k.Input+k.InputRegex]++
					isKnown = true
					break
				}
			}
			if isKnown {
				continue
			}
			agg.Violations = append(agg.Violations, v)
			if len(agg.Violations) >= *maxViol {
				break
			}
		}
	}
	agg.finish()
	js, err := json.Marshal(agg)
	if err != nil {
		fmt.Fprintln(os.Stderr, "marshal:", err)
		os.Exit(2)
	}
	if *out == "" {
		os.Stdout.Write(js)
	} else if err := os.WriteFile(*out, js, 0o644); err != nil {
		fmt.Fprintln(os.Stderr, err)
		os.Exit(2)
	}
	if agg.Stalled {
		os.Exit(4)
	}
}

// ReplayFile is the on-disk form of one run.
type ReplayFile struct {
	Property  string      `json:"property"`
	Tier      string      `json:"tier"`
	Seed      uint64      `json:"seed"`
	RunIndex  int64       `json:"run_index"`
	Sub       string      `json:"sub,omitempty"`
	Tape      []uint32    `json:"tape"`
	Signature string      `json:"signature"`
	Detail    string      `json:"detail"`
	Input     string      `json:"input,omitempty"`
	SiteHash  string      `json:"site_table_hash,omitempty"`
	RepoHash  string      `json:"repo_tree_hash,omitempty"`
	Note      string      `json:"note,omitempty"`
	Target    *TargetSpec `json:"target,omitempty"`
}

// TargetSpec asks for the directed schedule that makes two statements adjacent (race witness).
type TargetSpec struct {
	Park string `json:"park"` // file:line of the statement before which a task is parked
	Peer string `json:"peer"` // file:line of the statement a peer must have just executed
	Nth  int    `json:"nth"`  // which arrival at the park statement parks
}

var schedTarget *TargetSpec

// replayMain re-executes one tape in this fresh process and prints what happened as JSON:
// {"violated":bool,"signature":...,"detail":...,"hash":...}.
func replayMain(args []string) {
	fs := flag.NewFlagSet("replay", flag.ExitOnError)
	file := fs.String("file", "", "replay file")
	verbose := fs.Bool("v", false, "print the sample of the run")
	fs.Parse(args)
	data, err := os.ReadFile(*file)
	if err != nil {
		fmt.Fprintln(os.Stderr, err)
		os.Exit(2)
	}
	var rf ReplayFile
	if err := json.Unmarshal(data, &rf); err != nil {
		fmt.Fprintln(os.Stderr, err)
		os.Exit(2)
	}
	p := profiles[rf.Property]
	if p == nil {
		fmt.Fprintln(os.Stderr, "unknown property", rf.Property)
		os.Exit(2)
	}
	subBatch = rf.Sub
	thorough = rf.Tier == "thorough"
	schedTarget = rf.Target
	agg := newAgg(p.id)
	rl := newRaceLog()
	v := oneRun(p, agg, rf.Seed, rf.RunIndex, rf.Tape, true, true, rl)
	// give the detector's log a moment: reports are written synchronously, but be safe
	if v == nil && rl != nil {
		if txt := rl.fresh(); txt != "" {
			if sig, detail := raceSignature(txt); sig != "" {
				v = &Violation{Property: p.id, Signature: "race/" + sig, Detail: detail}
			}
		}
	}
	res := map[string]interface{}{"violated": v != nil, "digest": agg.Digest, "stalled": agg.Stalled}
	if v != nil {
		res["signature"] = v.Signature
		res["detail"] = v.Detail
		res["input"] = v.Input
		res["tape"] = v.Tape
	}
	if *verbose && len(agg.Samples) > 0 {
		res["sample"] = agg.Samples[0]
	}
	js, _ := json.Marshal(res)
	fmt.Println(string(js))
}

var subBatch string

// thorough widens the per-run bounds (more tasks and operations, longer histories, longer inputs).
var thorough bool

// bound returns q in the quick tier and t in the thorough tier.
func bound(q, t int) int {
	if thorough {
		return t
	}
	return q
}
