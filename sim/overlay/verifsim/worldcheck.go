package main

import (
	"fmt"
	"os"
	"strings"
)

// expand repeats a document's flat unit n times (n >= 1; 1 returns the document unchanged).
func (d doc) expand(n int) string {
	if d.unitLen == 0 || n == 1 {
		return d.text
	}
	return d.text[:d.unitAt] + strings.Repeat(d.text[d.unitAt:d.unitAt+d.unitLen], n) + d.text[d.unitAt+d.unitLen:]
}

// worldCheckMain verifies the fixtures themselves: every grammar builds in every variant, valid
// documents parse, invalid ones fail, flat units may be repeated, nested specimens parse.
func worldCheckMain(args []string) {
	bad := 0
	delims := runDelims(12345)
	worlds := robustWorlds
	for _, w := range worlds {
		for _, gen := range []bool{false, true} {
			if gen && (w.hasGen == nil || !w.hasGen()) {
				continue
			}
			for _, la := range w.lookaheads() {
				p := w.build(buildOpts{lookahead: la, generated: gen})
				for _, d := range w.docs {
					texts := []string{d.text}
					if d.unitLen > 0 {
						texts = append(texts, d.expand(2), d.expand(17))
					}
					if d.nest != nil {
						texts = append(texts, d.nest(1), d.nest(5), d.nest(40))
					}
					for _, t := range texts {
						t = instantiate(t, delims)
						_, err := p.ParseString("f", t)
						if (err == nil) != d.valid {
							bad++
							fmt.Printf("FIXTURE world=%s gen=%v la=%d doc=%s valid=%v err=%v text=%q\n", w.name, gen, la, d.name, d.valid, err, clip(t, 80))
						}
					}
				}
			}
		}
		if w.stmtBuild != nil {
			p := w.stmtBuild(buildOpts{})
			for _, d := range w.docs {
				for _, s := range d.stmts {
					if _, err := p.ParseString("f", s); err != nil {
						bad++
						fmt.Printf("FIXTURE world=%s stmt=%q err=%v\n", w.name, s, err)
					}
				}
			}
		}
	}
	fmt.Printf("worldcheck: %d problems\n", bad)
	if bad > 0 {
		os.Exit(1)
	}
}
