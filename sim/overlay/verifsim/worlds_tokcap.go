package main

import (
	"github.com/alecthomas/participle/v2/lexer"
)

// W-tokcap: comments are tokens and are elided, but NOTHING in the grammar observes elided tokens
// except captures into lexer.Token / []lexer.Token fields (whose ranges span them) and the
// positions of conversion errors: no Pos / EndPos / Tokens fields, no explicit reference to the
// elided type, no Parseable.
type tcFile struct {
	Items []*tcItem `@@*`
}

type tcItem struct {
	Name  string        `@Ident`
	First lexer.Token   `( ":" @( Ident | Int ) )?`
	Body  []lexer.Token `( "{" @( Ident | Int | "," )* "}" )?`
	N     int8          `( "=" @Int )?`
	End   string        `@";"`
}

var worldTokcap = &world{
	name: "tokcap", lexerKind: "text/scanner", junk: "\n} }",
	build: func(o buildOpts) PH {
		return mustPH[tcFile]([]string{"Comment"}, applyCommon(o, commentScanner(), nil)...)
	},
	docs: []doc{
		{name: "plain", valid: true, text: "a { x, y, 1 } = 5; b: c; d;"},
		{name: "comments-inside-captures", valid: true, text: "a /* c0 */ : /* c1 */ x { /* c2 */ p, /* c3 */ q /* c4 */ } = /* c5 */ 7; // tail\nb { /* only */ };"},
		flatDoc("flat", "", "k { a, /* c */ b };", ""),
		{name: "empty", valid: true, text: ""},
		{name: "overflow-after-comment", valid: false, text: "a { x } = /* big */ 300;"},
		{name: "overflow-plain", valid: false, text: "a = 999;"},
		{name: "unclosed", valid: false, text: "a { x, /* c */ y"},
	},
}

// W-notes: an elided token type (Comment) is the FIRST terminal of a disjunction alternative.
type ntFile struct {
	Pos     lexer.Position
	Entries []*ntEntry `@@*`
	EndPos  lexer.Position
}

type ntEntry struct {
	Note *string `  @Comment`
	Kv   *ntKv   `| @@`
}

type ntKv struct {
	Key string `@Ident "="`
	Val string `@( Ident | Int ) ";"`
}

var worldNotes = &world{
	name: "notes", lexerKind: "text/scanner", junk: "\n= =",
	build: func(o buildOpts) PH {
		return mustPH[ntFile]([]string{"Comment"}, applyCommon(o, commentScanner(), nil)...)
	},
	docs: []doc{
		{name: "mixed", valid: true, text: "// n1\na = 1; /* n2 */ b = c;\n/* n3 */\n// n4\n"},
		{name: "comments-inside", valid: true, text: "a /* in */ = /* side */ 1 /* here */ ;"},
		flatDoc("flat", "", "/* n */ k = 1;", ""),
		{name: "empty", valid: true, text: ""},
		{name: "only-notes", valid: true, text: "// a\n// b\n"},
		{name: "broken", valid: false, text: "// n\na = ; b = 1;"},
	},
}

// W-anon: a field whose type is an anonymous struct.  Build accepts it and it parses; on the
// unchanged tree Parser.String() panics for it (that is C14's subject, not claimed here) — every
// String() call must then panic alike.
type anFile struct {
	Pos   lexer.Position
	Pairs []struct {
		Key string `@Ident "="`
		Val string `@( Ident | Int )`
	} `( @@ ";" )*`
}

var worldAnon = &world{
	name: "anon", lexerKind: "text/scanner", junk: "\n= =",
	build: func(o buildOpts) PH { return mustPH[anFile](nil, applyCommon(o, nil, nil)...) },
	docs: []doc{
		{name: "pairs", valid: true, text: "a = 1; b = c;"},
		flatDoc("flat", "", "k = v;", ""),
		{name: "empty", valid: true, text: ""},
		{name: "broken", valid: false, text: "a = 1; b = ;"},
	},
}

// W-defs: a lookahead group that scans over a whole nested production — (?= @@ "=") — after
// captures of the same sequence are already pending ("export" modifier, name).
type dfProgram struct {
	Pos   lexer.Position
	Stmts []*dfStmt `( @@ ";" )*`
}

type dfStmt struct {
	Def  *dfDef  `  @@`
	Call *dfCall `| @@`
	Let  *dfLet  `| @@`
}

type dfDef struct {
	Export bool      `@"export"?`
	Name   string    `@Ident`
	Params *dfParams `(?= @@ "=") @@`
	Body   *dfExpr   `"=" @@`
}

type dfLet struct {
	Name  string  `@Ident`
	Value *dfExpr `"=" @@`
}

type dfCall struct {
	Name string    `@Ident`
	Args *dfParams `@@`
}

type dfParams struct {
	Items []*dfExpr `"(" ( @@ ( "," @@ )* )? ")"`
}

type dfExpr struct {
	Name   string `  @Ident`
	Number *int   `| @Int`
}

var worldDefs = &world{
	name: "defs", lexerKind: "text/scanner", junk: "\n) =",
	build: func(o buildOpts) PH {
		return mustPH[dfProgram]([]string{"Comment"}, applyCommon(o, commentScanner(), nil)...)
	},
	docs: []doc{
		{name: "lets", valid: true, text: "x = 1; y = x;"},
		{name: "definitions", valid: true, text: "f(a, b) = a; g() = 1;"},
		{name: "calls", valid: true, text: "x = 1; f(x); f(1, 2);"},
		{name: "exported", valid: true, text: "export f(a, b) = a; x = 1; export g() = x;"},
		flatDoc("flat", "", "export h(a) = a; k(1);", ""),
		{name: "empty", valid: true, text: ""},
		{name: "unclosed-def", valid: false, text: "f(a, b = a;"},
		{name: "unclosed-exported", valid: false, text: "export f(a, b = a;"},
		{name: "call-with-junk", valid: false, text: "f(a) 1;"},
	},
}
