package main

import (
	"encoding/json"
	"fmt"
	"os"
	"path/filepath"
	"sort"
	"strings"

	"github.com/alecthomas/participle/v2/lexer"
	"github.com/alecthomas/participle/v2/lexer/verifshim"
)

// lexDef is a lexer definition of the simulated world (C07, C09, C15 clause 4).
type lexDef struct {
	name    string
	rules   func() lexer.Rules // nil for non-rule-based definitions
	genName string             // fixture name of the generated twin, "" if none
	build   func() lexer.Definition
	corpus  []string
	delims  bool // corpus contains {D0}.. placeholders
	// patterns that scan to the end of the input before failing (an unclosed comment opener): a
	// document repeated thousands of times costs quadratic real time inside regexp, which no step
	// cap sees; such definitions get no huge inputs
	noHuge bool
}

func popRootRules() lexer.Rules {
	return lexer.Rules{
		"Root":  {lexer.Include("Common")},
		"Group": {lexer.Include("Common")},
		"Common": {
			{Name: "Open", Pattern: `\(`, Action: lexer.Push("Group")},
			{Name: "Close", Pattern: `\)`, Action: lexer.Pop()},
			{Name: "Word", Pattern: `\w+`},
			{Name: "space", Pattern: `\s+`},
		},
	}
}

func returnRootRules() lexer.Rules {
	return lexer.Rules{
		"Root": {
			{Name: "Num", Pattern: `\d+`},
			{Name: "At", Pattern: `@`, Action: lexer.Push("Ref")},
			{Name: "space", Pattern: `\s+`},
			lexer.Include("Ref"),
		},
		"Ref": {
			{Name: "Dot", Pattern: `\.`},
			{Name: "Ident", Pattern: `[a-z]+`},
			lexer.Return(),
		},
	}
}

func interpRules() lexer.Rules {
	return lexer.Rules{
		"Root": {
			{Name: "String", Pattern: `"`, Action: lexer.Push("String")},
		},
		"String": {
			{Name: "Escaped", Pattern: `\\.`},
			{Name: "StringEnd", Pattern: `"`, Action: lexer.Pop()},
			{Name: "Expr", Pattern: `\${`, Action: lexer.Push("Expr")},
			{Name: "Char", Pattern: `\$|[^$"\\]+`},
		},
		"Expr": {
			lexer.Include("Root"),
			{Name: "whitespace", Pattern: `\s+`},
			{Name: "Oper", Pattern: `[-+/*%]`},
			{Name: "Ident", Pattern: `\w+`},
			{Name: "ExprEnd", Pattern: `}`, Action: lexer.Pop()},
		},
	}
}

func badBackrefRules() lexer.Rules {
	return lexer.Rules{
		"Root": {
			{Name: "Heredoc", Pattern: `<<(\w+)\b`, Action: lexer.Push("Heredoc")},
			{Name: "Zero", Pattern: `%`, Action: lexer.Push("ZeroGroups")},
			lexer.Include("Common"),
		},
		"Heredoc": {
			{Name: "End", Pattern: `\b\2\b`, Action: lexer.Pop()},
			lexer.Include("Common"),
		},
		"ZeroGroups": {
			{Name: "Self", Pattern: `\0+`, Action: lexer.Pop()},
			{Name: "Bang", Pattern: `!`, Action: lexer.Pop()},
			lexer.Include("Common"),
		},
		"Common": {
			{Name: "whitespace", Pattern: `\s+`},
			{Name: "Ident", Pattern: `\w+`},
		},
	}
}

// Definitions whose rules can match the empty string: the constructor accepts them; the lexer's
// empty-match guards must turn them into errors, never into empty tokens or a stall.
func nullableElidedRules() lexer.Rules {
	return lexer.Rules{"Root": {
		{Name: "Ident", Pattern: `[a-z]+`},
		{Name: "Punct", Pattern: `[=;]`},
		{Name: "whitespace", Pattern: `\s*`},
	}}
}

func nullableTokenRules() lexer.Rules {
	return lexer.Rules{"Root": {
		{Name: "Ident", Pattern: `[a-z]+`},
		{Name: "Punct", Pattern: `[=;]`},
		{Name: "space", Pattern: `\s+`},
		{Name: "Stars", Pattern: `\**`},
	}}
}

func nullableActionRules() lexer.Rules {
	return lexer.Rules{
		"Root": {
			{Name: "Word", Pattern: `[a-z]+`},
			{Name: "space", Pattern: `\s+`},
			{Name: "Open", Pattern: `\(?`, Action: lexer.Push("Group")},
		},
		"Group": {
			{Name: "Word", Pattern: `[a-z]+`},
			{Name: "space", Pattern: `\s+`},
			{Name: "Close", Pattern: `\)?`, Action: lexer.Pop()},
		},
	}
}

// unitsRules exercises the regular-expression operators the lexer generator translates: literal
// alternations behind a consuming prefix, case folding, classes, '.', optional and repeated
// groups, word boundaries, captures.
func unitsRules() lexer.Rules {
	return lexer.Rules{"Root": {
		{Name: "Dimension", Pattern: `\d+(?:px|em|rem|%)`},
		{Name: "Keyword", Pattern: `(?i)\b(?:select|from|where)\b`},
		{Name: "Float", Pattern: `\d+\.\d+(?:[eE][-+]?\d+)?`},
		{Name: "Int", Pattern: `\d+`},
		{Name: "Quoted", Pattern: `'(?:\\.|[^'\\])*'`},
		{Name: "DString", Pattern: `"(?:[^"\\]+|\\.)*"`},
		{Name: "OptStar", Pattern: `x(?:a?)*y`},
		{Name: "List", Pattern: `\[(?:\d+|,|)*\]`},
		{Name: "Tag", Pattern: `</?[a-z]+(?:\s[a-z]+)*>`},
		{Name: "Ident", Pattern: `[a-zA-Z_\p{L}][\w-]*`},
		{Name: "Arrow", Pattern: `->|=>|<-|<=>`},
		{Name: "Range", Pattern: `\.\.\.?`},
		{Name: "Esc", Pattern: `\\(?:.|\n)`},
		{Name: "LineEnd", Pattern: `;[^\n]*$`},
		{Name: "Op", Pattern: `[-+*/=<>!]=?`},
		{Name: "Pair", Pattern: `(\w):(\w)?`},
		{Name: "Shebang", Pattern: `^#![^\n]*`},
		{Name: "Fold", Pattern: `(?i)\$(?:émile|ÉCOLE|straße)`},
		{Name: "NotWord", Pattern: `@\B@?`},
		{Name: "Hex", Pattern: `0[xX][0-9a-fA-F]{1,4}`},
		{Name: "space", Pattern: `\s+`},
	}}
}

// optGroupRules: an action rule with an optional capture group (shell-style <<-EOF heredocs).
func optGroupRules() lexer.Rules {
	return lexer.Rules{
		"Root": {
			{Name: "Heredoc", Pattern: `<<(-)?(\w+)\b`, Action: lexer.Push("Body")},
			lexer.Include("Common"),
		},
		"Body": {
			{Name: "End", Pattern: `\b\2\b`, Action: lexer.Pop()},
			lexer.Include("Common"),
		},
		"Common": {
			{Name: "whitespace", Pattern: `\s+`},
			{Name: "Ident", Pattern: `\w+`},
		},
	}
}

// convolutedBackrefRules: back-references next to escaped backslashes (from the repository's own
// "convoluted" test) and a two-group push.
func convolutedBackrefRules() lexer.Rules {
	return lexer.Rules{
		"Root": {
			{Name: "JustOne", Pattern: `(\\\\1)`, Action: lexer.Push("Convoluted")},
			{Name: "Pair", Pattern: `<(\w+)\|(\w+)>`, Action: lexer.Push("Paired")},
			{Name: "space", Pattern: `\s+`},
			{Name: "Other", Pattern: `[^\s<\\]+`},
		},
		"Convoluted": {
			{Name: "ConvolutedMatch", Pattern: `\\\\\1`},
			{Name: "space", Pattern: `\s+`},
			{Name: "Done", Pattern: `;`, Action: lexer.Pop()},
		},
		"Paired": {
			{Name: "First", Pattern: `\b\1\b`},
			{Name: "Second", Pattern: `\b\2\b`, Action: lexer.Pop()},
			{Name: "space", Pattern: `\s+`},
			{Name: "Word", Pattern: `\w+`},
		},
	}
}

// nestedIncludeRules: Includes three levels deep (Root -> Expr -> Atoms -> Lits).
func nestedIncludeRules() lexer.Rules {
	return lexer.Rules{
		"Root": {
			{Name: "Open", Pattern: `\{`, Action: lexer.Push("Block")},
			lexer.Include("Expr"),
		},
		"Block": {
			{Name: "Close", Pattern: `\}`, Action: lexer.Pop()},
			lexer.Include("Expr"),
		},
		"Expr": {
			{Name: "Oper", Pattern: `[-+*/]`},
			lexer.Include("Atoms"),
			{Name: "space", Pattern: `\s+`},
		},
		"Atoms": {
			{Name: "Ident", Pattern: `[a-z]\w*`},
			lexer.Include("Lits"),
		},
		"Lits": {
			{Name: "Num", Pattern: `\d+`},
			{Name: "Str", Pattern: `'[^']*'`},
		},
	}
}

// eofNamedRules: a user rule that happens to be called EOF (a here-doc terminator).
func eofNamedRules() lexer.Rules {
	return lexer.Rules{
		"Root": {
			{Name: "Start", Pattern: `<<EOF\b`, Action: lexer.Push("Doc")},
			{Name: "Word", Pattern: `\w+`},
			{Name: "space", Pattern: `\s+`},
		},
		"Doc": {
			{Name: "EOF", Pattern: `\bEOF\b`, Action: lexer.Pop()},
			{Name: "Word", Pattern: `\w+`},
			{Name: "space", Pattern: `\s+`},
		},
	}
}

// fenceRules: a back-reference to captured text made of regular-expression metacharacters
// (markdown-style fences), which must be quoted when the pattern is expanded.
func fenceRules() lexer.Rules {
	return lexer.Rules{
		"Root": {
			{Name: "Fence", Pattern: `(\*{3,}|\.{3}|\+\+|\$\$|\[\[|\(\?|\\\\)`, Action: lexer.Push("Body")},
			{Name: "Word", Pattern: `[^\s*.+$\[(\\]+`},
			{Name: "space", Pattern: `\s+`},
			{Name: "Punct", Pattern: `[*.+$\[(\\]`},
		},
		"Body": {
			{Name: "End", Pattern: `\1`, Action: lexer.Pop()},
			{Name: "Text", Pattern: `[^\s*.+$\[(\\]+`},
			{Name: "space", Pattern: `\s+`},
			{Name: "Punct", Pattern: `[*.+$\[(\\]`},
		},
	}
}

// backrefReturnRules: a back-reference state that is left through Return() into a parent state
// which has a back-reference rule of its own.
func backrefReturnRules() lexer.Rules {
	return lexer.Rules{
		"Root": {
			{Name: "Start", Pattern: `<<(\w+)\b`, Action: lexer.Push("Doc")},
			{Name: "Word", Pattern: `\w+`},
			{Name: "space", Pattern: `\s+`},
		},
		"Doc": {
			{Name: "space", Pattern: `\s+`},
			{Name: "Open", Pattern: `<(\w+)>`, Action: lexer.Push("Tag")},
			{Name: "Stray", Pattern: `[<>/]`},
			{Name: "End", Pattern: `\b\1\b`, Action: lexer.Pop()},
			{Name: "Word", Pattern: `\w+`},
		},
		"Tag": {
			{Name: "Close", Pattern: `</\1>`},
			lexer.Return(),
		},
	}
}

// quantifiedBackrefRules: back-references under a quantifier and to a group that may be empty
// (Rust-style raw strings r#"..."#): whether the expanded pattern compiles depends on the input.
func quantifiedBackrefRules() lexer.Rules {
	return lexer.Rules{
		"Root": {
			{Name: "RawStart", Pattern: `r(#*)"`, Action: lexer.Push("Raw")},
			{Name: "Open", Pattern: `(=*)\[`, Action: lexer.Push("In")},
			{Name: "Word", Pattern: `\w+`},
			{Name: "space", Pattern: `\s+`},
		},
		"Raw": {
			{Name: "RawEnd", Pattern: `"\1`, Action: lexer.Pop()},
			{Name: "RawText", Pattern: `[^"]+`},
			{Name: "Quote", Pattern: `"`},
		},
		"In": {
			{Name: "Close", Pattern: `\]\1`, Action: lexer.Pop()},
			{Name: "Run", Pattern: `\1+`},
			{Name: "Text", Pattern: `[^\]=]+`},
		},
	}
}

// lazyRules: lazy quantifiers.  The runtime lexer supports them through regexp; the generator of
// the unchanged tree rejects them ("non-greedy match not supported"), so the generated twin is an
// optional fixture (its name starts with Opt) that only exists when the generator accepts it.
func lazyRules() lexer.Rules {
	return lexer.Rules{"Root": {
		{Name: "Comment", Pattern: `<!--(?:[^-]*|-)*?-->`},
		{Name: "Block", Pattern: `/\*(?:.|\n)*?\*/`},
		{Name: "List", Pattern: `\[(?:\w*,?)*?\]`},
		{Name: "Tag", Pattern: `<\w+?>`},
		{Name: "Word", Pattern: `\w+`},
		{Name: "Punct", Pattern: `[-<>!/*\[\],]`},
		{Name: "space", Pattern: `\s+`},
	}}
}

// sectionedRules: a rule that both contains a back-reference and pushes a state (sections nested
// in a here-document, each keyed on what its parent captured).
func sectionedRules() lexer.Rules {
	return lexer.Rules{
		"Root": {
			{Name: "Open", Pattern: `<<([^\s:]+)`, Action: lexer.Push("Doc")},
			{Name: "Ident", Pattern: `\w+`},
			{Name: "whitespace", Pattern: `\s+`},
		},
		"Doc": {
			{Name: "Section", Pattern: `\1:([^\s:]+)`, Action: lexer.Push("Section")},
			{Name: "Close", Pattern: `\1\b`, Action: lexer.Pop()},
			{Name: "Ident", Pattern: `\w+`},
			{Name: "Punct", Pattern: `[:<]`},
			{Name: "whitespace", Pattern: `\s+`},
		},
		"Section": {
			{Name: "SectionEnd", Pattern: `\1\b`, Action: lexer.Pop()},
			{Name: "Ident", Pattern: `\w+`},
			{Name: "Punct", Pattern: `[:<]`},
			{Name: "whitespace", Pattern: `\s+`},
		},
	}
}

// includedTerminatorRules: the back-reference rule reaches the here-document state only through
// an Include.
func includedTerminatorRules() lexer.Rules {
	return lexer.Rules{
		"Root": {
			{Name: "Start", Pattern: `<<(\w+)\b`, Action: lexer.Push("Doc")},
			{Name: "Word", Pattern: `\w+`},
			{Name: "space", Pattern: `\s+`},
		},
		"Doc": {
			lexer.Include("Terminators"),
			{Name: "Word", Pattern: `\w+`},
			{Name: "space", Pattern: `\s+`},
		},
		"Terminators": {
			{Name: "End", Pattern: `\b\1\b`, Action: lexer.Pop()},
			{Name: "Abort", Pattern: `!\1!`, Action: lexer.Pop()},
		},
	}
}

// oddRules: rule maps the constructor accepts although they can never lex everything: a state
// without rules, reachable by Push; a back-reference pattern that ends in a lone backslash (never
// compiled at construction).
func oddRules() lexer.Rules {
	return lexer.Rules{
		"Root": {
			{Name: "Raw", Pattern: `r"`, Action: lexer.Push("Raw")},
			{Name: "Tail", Pattern: `<(\w+)>`, Action: lexer.Push("Tail")},
			{Name: "Word", Pattern: `\w+`},
			{Name: "space", Pattern: `\s+`},
		},
		"Raw": {},
		"Tail": {
			{Name: "End", Pattern: `\1\`, Action: lexer.Pop()},
			{Name: "Word", Pattern: `\w+`},
			{Name: "space", Pattern: `\s+`},
		},
	}
}

// noRootRules: a rule map without a Root state.
func noRootRules() lexer.Rules {
	return lexer.Rules{"Main": {
		{Name: "Word", Pattern: `\w+`},
		{Name: "space", Pattern: `\s+`},
	}}
}

// diamondIncludeRules: one state receives the same included state twice, directly and through two
// other includes (Root -> {Expr, Stmt} -> Common, and Common once more).
func diamondIncludeRules() lexer.Rules {
	return lexer.Rules{
		"Root": {
			lexer.Include("Expr"),
			lexer.Include("Stmt"),
			lexer.Include("Common"),
		},
		"Expr": {
			{Name: "Num", Pattern: `\d+`},
			lexer.Include("Common"),
		},
		"Stmt": {
			{Name: "Open", Pattern: `{`, Action: lexer.Push("Block")},
			lexer.Include("Common"),
		},
		"Block": {
			{Name: "Close", Pattern: `}`, Action: lexer.Pop()},
			lexer.Include("Stmt"),
			lexer.Include("Expr"),
		},
		"Common": {
			{Name: "Ident", Pattern: `[a-z]+`},
			{Name: "space", Pattern: `\s+`},
		},
	}
}

// unicodeClassRules: large Unicode classes (tables of ranges) next to each other.
func unicodeClassRules() lexer.Rules {
	return lexer.Rules{"Root": {
		{Name: "Greek", Pattern: `\p{Greek}+`},
		{Name: "Han", Pattern: `\p{Han}+`},
		{Name: "Cyrillic", Pattern: `\p{Cyrillic}+`},
		{Name: "Upper", Pattern: `\p{Lu}\pL*`},
		{Name: "Letter", Pattern: `\pL+`},
		{Name: "Num", Pattern: `\pN+`},
		{Name: "space", Pattern: `\s+`},
		{Name: "Punct", Pattern: `[[:punct:]]`},
	}}
}

// pointerActionRules: actions given as pointers (&lexer.ActionPush{...}), as rule maps assembled by
// a program often carry them; *ActionPush and *ActionPop implement lexer.Action like the values
// lexer.Push and lexer.Pop return.  The patterns of these rules can match the empty string.
func pointerActionRules() lexer.Rules {
	return lexer.Rules{
		"Root": {
			{Name: "Word", Pattern: `\w+`},
			{Name: "space", Pattern: `[ \t]+`},
			{Name: "EOL", Pattern: `\n`},
			{Name: "Open", Pattern: `\(*`, Action: &lexer.ActionPush{State: "In"}},
		},
		"In": {
			{Name: "Word", Pattern: `\w+`},
			{Name: "ws", Pattern: `\s+`},
			{Name: "mark", Pattern: `#?`, Action: &lexer.ActionPush{State: "Annotation"}},
			{Name: "Close", Pattern: `\)*`, Action: &lexer.ActionPop{}},
		},
		"Annotation": {
			{Name: "Tag", Pattern: `[a-z]+:`},
			lexer.Return(),
		},
	}
}

func mustRules(r lexer.Rules) lexer.Definition {
	d, err := lexer.New(r)
	if err != nil {
		panic(err)
	}
	return d
}

var iniSimpleRules = []lexer.SimpleRule{
	{Name: `Ident`, Pattern: `[a-zA-Z][a-zA-Z_\d]*`},
	{Name: `String`, Pattern: `"(?:\\.|[^"])*"`},
	{Name: `Float`, Pattern: `\d+(?:\.\d+)?`},
	{Name: `Punct`, Pattern: `[][=]`},
	{Name: "comment", Pattern: `[#;][^\n]*`},
	{Name: "whitespace", Pattern: `\s+`},
}

var lexDefs = append(append(append([]*lexDef{}, coreLexDefs...), exampleLexDefs...), exampleLexDefs2...)

var coreLexDefs = []*lexDef{
	{name: "heredoc", rules: heredocRules, delims: true, build: func() lexer.Definition { return mustRules(heredocRules()) },
		corpus: []string{"\n\t<<{D0}\n\thello world\n\t{D0}\n", "x = \"s\"; # c\n<<{D0} a b c {D0};\n<<{D1}\n  {D0} words über {D2}\n{D1}\nlast = \"q\\\"q\"\n", "<<{D0} a <<{D1} b {D0} c", "a = b\n" + strings.Repeat("// r\n", 300) + "c = d", ""}},
	{name: "conformance", rules: conformanceRules, genName: "Conformance", build: func() lexer.Definition { return mustRules(conformanceRules()) },
		corpus: []string{`EXPRTEST:"${"Hello ${name + "!"}"}"`, `EXPRTEST:"${user.name} and \"${a.b.c * 2}\" ünï"`, "LITTEST:SELECT ONE FROM tbl WHERE ONEx LIKE y",
			"CITEST:select AbC From wHeRe abcd like", "WBTEST:abc xyz/90 0 abcx 901 xyz", `EXPRTEST:"${"Hello \`, `EXPRTEST:"a\`, ""}},
	{name: "poproot", rules: popRootRules, genName: "PopRoot", build: func() lexer.Definition { return mustRules(popRootRules()) },
		corpus: []string{"(a (b c) d) e", "a ) b", "(a (b) c))) d (e", ")", "((((a))))", "x)", ""}},
	{name: "returnroot", rules: returnRootRules, genName: "ReturnRoot", build: func() lexer.Definition { return mustRules(returnRootRules()) },
		corpus: []string{"1 @a.b 2 @c", "1 ?", "ab.c 12", "@a.b.c!", "yz", "12 @x @y.z 3", ""}},
	{name: "interp", rules: interpRules, genName: "Interp", build: func() lexer.Definition { return mustRules(interpRules()) },
		corpus: []string{`"hello ${user + "${last}"}"`, `"a\"b$c${x * "y"}"`, `"${"${"${1}"}"}"`, `"unterminated ${x`, `"esc\`, ""}},
	{name: "badbackref", rules: badBackrefRules, genName: "OptBadBackref", build: func() lexer.Definition { return mustRules(badBackrefRules()) },
		corpus: []string{"a b <<END x END", "a % b !", "% %", "x <<Q", ""}},
	{name: "nullable-elided", rules: nullableElidedRules, genName: "NullableElided", build: func() lexer.Definition { return mustRules(nullableElidedRules()) },
		corpus: []string{"a = b;", "a = $b", "a  ;  ", "%", ""}},
	{name: "nullable-token", rules: nullableTokenRules, genName: "NullableToken", build: func() lexer.Definition { return mustRules(nullableTokenRules()) },
		corpus: []string{"a = ** b;", "a ? b", "***", "a=b $", ""}},
	{name: "nullable-actions", rules: nullableActionRules, genName: "NullableActions", build: func() lexer.Definition { return mustRules(nullableActionRules()) },
		corpus: []string{"a (b c) d", "a ( b", "a ) b", "(a (b)) !", "a $ b", ""}},
	{name: "units", rules: unitsRules, genName: "Units", build: func() lexer.Definition { return mustRules(unitsRules()) },
		corpus: []string{"10px 12 3.5em 7% 1.5e-3 2rem", "select a-b FROM 'it\\'s' where x<=>y -> z", "<div class> text </div> a..b a...b \\n \\", "x:y z: ; comment\nünï 'open", "10p 1.e 1.5e+ <a  'q\\", "#!/bin/sh -e\n$Émile $école $STRASSE $x @ @@ 0x1F 0Xabcde 0x", "\"\" \"a\\\"b\" \"ünï\\n\" \"open", "xaay xy xby [1,2] [] [,3,] [4 5]", ""}},
	{name: "convoluted-backref", rules: convolutedBackrefRules, build: func() lexer.Definition { return mustRules(convolutedBackrefRules()) },
		corpus: []string{`\\1 \\\1 ; x`, `<ab|cd> w ab x cd y`, `<a|b> a a b <c|c> c`, `\\1 \\1`, `<a|`, ""}},
	{name: "nested-include", rules: nestedIncludeRules, genName: "NestedInclude", build: func() lexer.Definition { return mustRules(nestedIncludeRules()) },
		corpus: []string{"a + 1 { b * 'c' } - 2", "{ { x } }", "a ? b", "{ 'open", "}", ""}},
	{name: "eof-named-rule", rules: eofNamedRules, genName: "EofNamed", build: func() lexer.Definition { return mustRules(eofNamedRules()) },
		corpus: []string{"a <<EOF b c EOF d e", "<<EOF x", "EOF <<EOF EOF EOF", ""}},
	{name: "backref-return", rules: backrefReturnRules, build: func() lexer.Definition { return mustRules(backrefReturnRules()) },
		corpus: []string{"<<END <b></b> END", "a <<X w <i></i> <j> y X b", "<<E <b></c> E", "<<E <b>", ""}},
	{name: "quantified-backref", rules: quantifiedBackrefRules, build: func() lexer.Definition { return mustRules(quantifiedBackrefRules()) },
		corpus: []string{`a r#"raw "quoted" text"# b r"plain" c`, `==[ x == y ]== z`, `[ empty group ] w`, `r##"never closed"#`, `=[ a = b`, ""}},
	{name: "lazy", rules: lazyRules, genName: "OptLazy", noHuge: true, build: func() lexer.Definition { return mustRules(lazyRules()) },
		corpus: []string{"a <!-- c - d --> b /* x * y */ [a,b,] <tag>", "<!-- open - comment", "[a,b $ ]", "/* never closed *", "<!---->[]", ""}},
	{name: "fence", rules: fenceRules, build: func() lexer.Definition { return mustRules(fenceRules()) },
		corpus: []string{"a *** code * here *** b", "... x . y ... ++ p + q ++", "$$ 1 $ 2 $$ [[ a [ b [[ (? x ( y (?", "\\\\ back \\ slash \\\\ done", "**** four **** *** open", ""}},
	{name: "optgroup", rules: optGroupRules, build: func() lexer.Definition { return mustRules(optGroupRules()) },
		corpus: []string{"a <<-END x y END b", "a <<END x END b", "<<- x", "<<E", ""}},
	{name: "sectioned", rules: sectionedRules, genName: "OptSectioned", build: func() lexer.Definition { return mustRules(sectionedRules()) },
		corpus: []string{"a <<DOC x DOC:sec y z sec w DOC b", "<<A A:b A:b", "<<A A:b b A:c c A d", "<<A A: x", "<<A A:b", "<<\xffT x \xffT y", "<<T T:\xc3 a \xc3 T", "<<\u00e9t\u00e9 \u00e9t\u00e9:\u00fc x \u00fc \u00e9t\u00e9", ""}},
	{name: "included-terminator", rules: includedTerminatorRules, build: func() lexer.Definition { return mustRules(includedTerminatorRules()) },
		corpus: []string{"a <<END x y END b", "<<A b !A! c <<B B", "<<A b", "<<A ?", ""}},
	{name: "odd", rules: oddRules, build: func() lexer.Definition { return mustRules(oddRules()) },
		corpus: []string{"a r\"raw text\" b", "a <t> b t c", "r\"", "<x>", "a b", ""}},
	{name: "no-root", rules: noRootRules, build: func() lexer.Definition { return mustRules(noRootRules()) },
		corpus: []string{"a b", " ", ""}},
	{name: "diamond-include", rules: diamondIncludeRules, genName: "DiamondInclude", build: func() lexer.Definition { return mustRules(diamondIncludeRules()) },
		corpus: []string{"a 1 { b 2 { c } } d", "a ! b", "{ a ? }", "{ 1 2", "}", "A", ""}},
	{name: "unicode-classes", rules: unicodeClassRules, genName: "UnicodeClasses", build: func() lexer.Definition { return mustRules(unicodeClassRules()) },
		corpus: []string{"\u03b1\u03b2\u03b3 \u6f22\u5b57 abc \u0416\u0443\u043a 42 \u0664\u0662, Xyz!", "\u03b1\U0001F600\u03b2", "\U0001F600", "\u03b1\U0010FFFF \u6f22\U000E0001", "\u1fff\u2000\u03b1\uffff", "abc\u00a0\u03c9\u0301", ""}},
	{name: "pointer-actions", rules: pointerActionRules, build: func() lexer.Definition { return mustRules(pointerActionRules()) },
		corpus: []string{"a (b c) d\n", "a ((b #todo: c)) d", "a ! b", "(a , b)", "(a #x: ! b)", "((a)", "foo\n) bar", ""}},
	{name: "basic-runtime", build: basicRuntimeDef, genName: "",
		corpus: []string{" 5  PRINT \"Factorial of:\"\n10  LET B = 1\n40  IF A <= 1 THEN 80\n", "10 LET X = ( 1 + ( 2 * Y ) ) / 3.5\n20 print \"ünï\\\"cødé\" + X\n", "10 REM comment\n20 PRINT \"open", ""}},
	{name: "basic-generated", build: func() lexer.Definition { return verifshim.GeneratedBasicLexer() },
		corpus: []string{" 5  PRINT \"Factorial of:\"\n10  LET B = 1\n40  IF A <= 1 THEN 80\n", "10 LET X = ( 1 + ( 2 * Y ) ) / 3.5\n20 print \"ünï\\\"cødé\" + X\n", "10 REM comment\n20 PRINT \"open", ""}},
	{name: "ini-simple", build: func() lexer.Definition { return lexer.MustSimple(iniSimpleRules) },
		corpus: []string{"a = \"a\"\nb = 123\n\n# A comment\n[numbers]\na = 10.3\n; c\n[strings]\na = \"\\\"quoted\\\"\"\n", "k = \"unterminated\n", "ü = 1", ""}},
	{name: "text-scanner", build: func() lexer.Definition { return lexer.TextScannerLexer },
		corpus: []string{"a = \"a\"\nb = 123 // c\n[x] 'c' `raw`\n", "x = \"unterminated\n", "'ab' 0x 1e+ /* open", "grüße = \"ß\"", ""}},
}

func lexDefByName(n string) *lexDef {
	for _, d := range lexDefs {
		if d.name == n {
			return d
		}
	}
	return nil
}

// emitFixturesMain writes the rule maps of the generator-eligible definitions as JSON, using the
// tree's own MarshalJSON.  Run once when fixtures change; the output is committed under
// /verif/sim/fixtures.
func emitFixturesMain(args []string) {
	if len(args) != 1 {
		fmt.Fprintln(os.Stderr, "usage: emitfixtures <dir>")
		os.Exit(2)
	}
	var names []string
	for _, d := range coreLexDefs {
		if d.genName == "" || d.rules == nil {
			continue
		}
		def := mustRules(d.rules())
		b, err := json.MarshalIndent(def, "", "  ")
		if err != nil {
			panic(err)
		}
		if err := os.WriteFile(filepath.Join(args[0], d.genName+".json"), append(b, '\n'), 0o644); err != nil {
			panic(err)
		}
		names = append(names, d.genName)
	}
	sort.Strings(names)
	fmt.Println("wrote", names)
}
