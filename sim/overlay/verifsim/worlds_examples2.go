package main

import (
	"fmt"
	"strconv"
	"strings"
	"text/scanner"

	"github.com/alecthomas/participle/v2"
	"github.com/alecthomas/participle/v2/lexer"
)

// The remaining example grammars of the repository (/repo/_examples), ported like the ones in
// worlds_examples.go: grammar structs, lexer rules, parser options and custom parse functions are
// copied faithfully (only renamed with a per-world prefix, all of which start with x2);
// everything that is not grammar (main functions, evaluation, printing) is dropped.
//
// A document is marked valid only if it parses under every lookahead of world.lookaheads().

// x2SampleDocs turns the inputs of an example's own tests into valid documents.
func x2SampleDocs(texts ...string) []doc {
	var out []doc
	for i, t := range texts {
		out = append(out, doc{name: fmt.Sprintf("sample-%d", i+1), valid: true, text: t})
	}
	return out
}

// ---------------------------------------------------------------------------------------------
// ex2-expr (_examples/expr): default text/scanner lexer, no options, a Capture implementation,
// precedence encoded in the grammar with loops
// ---------------------------------------------------------------------------------------------

type x2aOperator int

const (
	x2aOpMul x2aOperator = iota
	x2aOpDiv
	x2aOpAdd
	x2aOpSub
)

var x2aOperatorMap = map[string]x2aOperator{"+": x2aOpAdd, "-": x2aOpSub, "*": x2aOpMul, "/": x2aOpDiv}

func (o *x2aOperator) Capture(s []string) error {
	*o = x2aOperatorMap[s[0]]
	return nil
}

// E --> T {( "+" | "-" ) T}
// T --> F {( "*" | "/" ) F}
// F --> P ["^" F]
// P --> v | "(" E ")" | "-" T

type x2aValue struct {
	Number        *float64       `  @(Float|Int)`
	Variable      *string        `| @Ident`
	Subexpression *x2aExpression `| "(" @@ ")"`
}

type x2aFactor struct {
	Base     *x2aValue `@@`
	Exponent *x2aValue `( "^" @@ )?`
}

type x2aOpFactor struct {
	Operator x2aOperator `@("*" | "/")`
	Factor   *x2aFactor  `@@`
}

type x2aTerm struct {
	Left  *x2aFactor     `@@`
	Right []*x2aOpFactor `@@*`
}

type x2aOpTerm struct {
	Operator x2aOperator `@("+" | "-")`
	Term     *x2aTerm    `@@`
}

type x2aExpression struct {
	Left  *x2aTerm     `@@`
	Right []*x2aOpTerm `@@*`
}

var worldEx2Expr = &world{
	name: "ex2-expr", lexerKind: "text/scanner", junk: "",
	build: func(o buildOpts) PH {
		opts := applyCommon(o, nil, nil)
		return mustPH[x2aExpression](nil, opts...)
	},
	docs: append(x2SampleDocs(`1 + 2 / 3 * (1 + 2)`), []doc{
		{name: "unicode", valid: true, text: "größe ^ 2 * (名前 - 1.5e3) // zażółć gęślą jaźń ✓\r\n\t/ π ^ (ключ) + /* ☃ */ 0.5"},
		{name: "scalar", valid: true, text: "  42\n"},
		flatDoc("flat-sum", "1", " + 1", ""),
		flatDoc("flat-product", "a ^ 2", " * b ^ c", " - 1"),
		{name: "nest", valid: true, text: "((1))", nest: func(d int) string {
			return strings.Repeat("(", d) + "1" + strings.Repeat(")", d)
		}},
		{name: "empty", valid: false, text: ""},
		{name: "unterminated-string", valid: false, text: "1 + 2 * \"never closed\n - 3"},
		{name: "long-char", valid: false, text: "a * 'bc' + 1"},
		{name: "dangling-op", valid: false, text: "1 + * 2"},
		{name: "double-exponent", valid: false, text: "a ^ b ^ c + 1"},
		{name: "unbalanced", valid: false, text: "(1 + (2 * 3) - 4"},
	}...),
}

// ---------------------------------------------------------------------------------------------
// ex2-expr2 (_examples/expr2): default text/scanner lexer, UseLookahead(2), right-recursive
// precedence levels, a Capture implementation
// ---------------------------------------------------------------------------------------------

type x2bExpression struct {
	Equality *x2bEquality `@@`
}

type x2bEquality struct {
	Comparison *x2bComparison `@@`
	Op         string         `( @( "!" "=" | "=" "=" )`
	Next       *x2bEquality   `  @@ )*`
}

type x2bComparison struct {
	Addition *x2bAddition   `@@`
	Op       string         `( @( ">" | ">" "=" | "<" | "<" "=" )`
	Next     *x2bComparison `  @@ )*`
}

type x2bAddition struct {
	Multiplication *x2bMultiplication `@@`
	Op             string             `( @( "-" | "+" )`
	Next           *x2bAddition       `  @@ )*`
}

type x2bMultiplication struct {
	Unary *x2bUnary          `@@`
	Op    string             `( @( "/" | "*" )`
	Next  *x2bMultiplication `  @@ )*`
}

type x2bUnary struct {
	Op      string      `  ( @( "!" | "-" )`
	Unary   *x2bUnary   `    @@ )`
	Primary *x2bPrimary `| @@`
}

type x2bPrimary struct {
	Number        *float64       `  @Float | @Int`
	String        *string        `| @String`
	Bool          *x2bBoolean    `| @( "true" | "false" )`
	Nil           bool           `| @"nil"`
	SubExpression *x2bExpression `| "(" @@ ")" `
}

type x2bBoolean bool

func (b *x2bBoolean) Capture(values []string) error {
	*b = values[0] == "true"
	return nil
}

var worldEx2Expr2 = &world{
	name: "ex2-expr2", lexerKind: "text/scanner", junk: "",
	build: func(o buildOpts) PH {
		opts := applyCommon(o, nil, nil)
		if o.lookahead == 0 {
			opts = append(opts, participle.UseLookahead(2))
		}
		return mustPH[x2bExpression](nil, opts...)
	},
	docs: append(x2SampleDocs(`1 + 2 / 3 * (1 + 2)`, `1 + false`), []doc{
		{name: "unicode", valid: true, text: "\"zażółć gęślą jaźń ✓\" == \"名前\" // käse ☃\r\n\t!= !(nil == true) /* π */"},
		{name: "compare", valid: true, text: "-1.5 < 2 == (3 > - - 4) != false"},
		{name: "scalar", valid: true, text: "nil"},
		{name: "nest", valid: true, text: "((1))", nest: func(d int) string {
			return strings.Repeat("(", d) + "1" + strings.Repeat(")", d)
		}},
		{name: "nest-unary", valid: true, text: "- ! 1", nest: func(d int) string {
			return strings.Repeat("- ! ", d) + "1"
		}},
		{name: "nest-sum", valid: true, text: "1 + 1 - 1", nest: func(d int) string {
			return strings.Repeat("1 + ", d) + "1"
		}},
		{name: "empty", valid: false, text: ""},
		{name: "unterminated-string", valid: false, text: "1 + \"never closed\n == 2"},
		{name: "bad-exponent", valid: false, text: "1 + 2e+ * 3"},
		{name: "identifier", valid: false, text: "1 + x * 2"},
		{name: "greater-equal", valid: false, text: "1 >= 2"},
		{name: "dangling-op", valid: false, text: "1 + * 2"},
		{name: "unbalanced", valid: false, text: "(1 + (2 * 3) - 4"},
	}...),
}

// ---------------------------------------------------------------------------------------------
// ex2-expr3 (_examples/expr3): default text/scanner lexer, four Union options, and a lookahead
// large enough to see a whole expression
//
// The grammar only works with that lookahead: under lookahead 1 and 2 its own samples `(1)`,
// `1 * 1`, `1 / 1` and `1 % 1` fail, hence fixedLookaheads.  Every union level retries the
// operand it has just parsed, so a parenthesised operand is parsed about eight times per nesting
// level, on valid input too (measured on the unchanged tree: "(1)" 0.7ms, "((1))" 6ms, depth 3
// 38ms, depth 4 0.4s, depth 5 1.9s, depth 6 15s; the same for "(" repeated and nothing else).
// There is therefore no nested specimen, no document nests parentheses ("((a))" already needs
// two thirds of the C06 step budget), and the documents are used verbatim (no content faults),
// like those of the tuple world.
// ---------------------------------------------------------------------------------------------

type (
	x2cExprString struct {
		Value string `@String`
	}

	x2cExprNumber struct {
		Value float64 `@Int | @Float`
	}

	x2cExprIdent struct {
		Name string `@Ident`
	}

	x2cExprParens struct {
		Inner x2cExprPrecAll `"(" @@ ")"`
	}

	x2cExprUnary struct {
		Op   string         `@("-" | "!")`
		Expr x2cExprOperand `@@`
	}

	x2cExprAddSub struct {
		Head x2cExprPrec2       `@@`
		Tail []x2cExprAddSubExt `@@+`
	}

	x2cExprAddSubExt struct {
		Op   string       `@("+" | "-")`
		Expr x2cExprPrec2 `@@`
	}

	x2cExprMulDiv struct {
		Head x2cExprPrec3       `@@`
		Tail []x2cExprMulDivExt `@@+`
	}

	x2cExprMulDivExt struct {
		Op   string       `@("*" | "/")`
		Expr x2cExprPrec3 `@@`
	}

	x2cExprRem struct {
		Head x2cExprOperand  `@@`
		Tail []x2cExprRemExt `@@+`
	}

	x2cExprRemExt struct {
		Op   string         `@"%"`
		Expr x2cExprOperand `@@`
	}

	x2cExprPrecAll interface{ exprPrecAll() }
	x2cExprPrec2   interface{ exprPrec2() }
	x2cExprPrec3   interface{ exprPrec3() }
	x2cExprOperand interface{ exprOperand() }
)

// These expression types can be matches as individual operands
func (x2cExprIdent) exprOperand()  {}
func (x2cExprNumber) exprOperand() {}
func (x2cExprString) exprOperand() {}
func (x2cExprParens) exprOperand() {}
func (x2cExprUnary) exprOperand()  {}

// These expression types can be matched at precedence level 3
func (x2cExprIdent) exprPrec3()  {}
func (x2cExprNumber) exprPrec3() {}
func (x2cExprString) exprPrec3() {}
func (x2cExprParens) exprPrec3() {}
func (x2cExprUnary) exprPrec3()  {}
func (x2cExprRem) exprPrec3()    {}

// These expression types can be matched at precedence level 2
func (x2cExprIdent) exprPrec2()  {}
func (x2cExprNumber) exprPrec2() {}
func (x2cExprString) exprPrec2() {}
func (x2cExprParens) exprPrec2() {}
func (x2cExprUnary) exprPrec2()  {}
func (x2cExprRem) exprPrec2()    {}
func (x2cExprMulDiv) exprPrec2() {}

// These expression types can be matched at the minimum precedence level
func (x2cExprIdent) exprPrecAll()  {}
func (x2cExprNumber) exprPrecAll() {}
func (x2cExprString) exprPrecAll() {}
func (x2cExprParens) exprPrecAll() {}
func (x2cExprUnary) exprPrecAll()  {}
func (x2cExprRem) exprPrecAll()    {}
func (x2cExprMulDiv) exprPrecAll() {}
func (x2cExprAddSub) exprPrecAll() {}

type x2cExpression struct {
	X x2cExprPrecAll `@@`
}

var worldEx2Expr3 = &world{
	name: "ex2-expr3", lexerKind: "text/scanner", junk: "", verbatim: true,
	fixedLookaheads: []int{0, participle.MaxLookahead, -1},
	build: func(o buildOpts) PH {
		opts := applyCommon(o, nil, nil)
		if o.lookahead == 0 {
			// This grammar requires enough lookahead to see the entire expression before
			// it can select the proper binary expression type - in other words, we only
			// know that `1 * 2 * 3 * 4` isn't the left-hand side of an addition or subtraction
			// expression until we know for sure that no `+` or `-` operator follows it
			opts = append(opts, participle.UseLookahead(99999))
		}
		opts = append(opts,
			// Register the ExprOperand union so we can parse individual operands
			participle.Union[x2cExprOperand](x2cExprUnary{}, x2cExprIdent{}, x2cExprNumber{}, x2cExprString{}, x2cExprParens{}),
			// Register the ExprPrec3 union so we can parse expressions at precedence level 3
			participle.Union[x2cExprPrec3](x2cExprRem{}, x2cExprUnary{}, x2cExprIdent{}, x2cExprNumber{}, x2cExprString{}, x2cExprParens{}),
			// Register the ExprPrec2 union so we can parse expressions at precedence level 2
			participle.Union[x2cExprPrec2](x2cExprMulDiv{}, x2cExprRem{}, x2cExprUnary{}, x2cExprIdent{}, x2cExprNumber{}, x2cExprString{}, x2cExprParens{}),
			// Register the ExprPrecAll union so we can parse expressions at the minimum precedence level
			participle.Union[x2cExprPrecAll](x2cExprAddSub{}, x2cExprMulDiv{}, x2cExprRem{}, x2cExprUnary{}, x2cExprIdent{}, x2cExprNumber{}, x2cExprString{}, x2cExprParens{}),
		)
		return mustPH[x2cExpression](nil, opts...)
	},
	docs: append(x2SampleDocs(`1`, `1.5`, `"a"`, `(1)`, `1 + 1`, `1 - 1`, `1 * 1`, `1 / 1`, `1 % 1`, `a + b - c * d / e % f`), []doc{
		{name: "unicode", valid: true, text: "größe % \"zażółć ✓\" * -名前 // käse ☃\r\n\t+ (π / !ключ) /* ☃ */ - \"ж\""},
		{name: "parens", valid: true, text: "(a + 1) * (b - 2)"},
		{name: "unary-chain", valid: true, text: "1 + - - 2"},
		flatDoc("flat-sum", "1", " + 1", ""),
		flatDoc("flat-product", "a", " * b", " - 1"),
		flatDoc("flat-rem", "a + b", " % c", ""),
		{name: "empty", valid: false, text: ""},
		{name: "unterminated-string", valid: false, text: "1 + \"never closed\n * 2"},
		{name: "long-char", valid: false, text: "a * 'bc' + 1"},
		{name: "dangling-op", valid: false, text: "1 + * 2"},
		{name: "missing-op", valid: false, text: "a + b c * d"},
		{name: "unbalanced", valid: false, text: "(1 + 2 * 3"},
	}...),
}

// ---------------------------------------------------------------------------------------------
// ex2-expr4 (_examples/expr4): default text/scanner lexer, the whole expression is parsed by a
// custom function over the PeekingLexer registered with ParseTypeWith
//
// Every operator of the custom parser recurses for its right operand (`a + b - c` is
// a + (b - c)), so there is no flat unit.  The custom function reports a missing ")" and
// unquoting / number conversion failures with plain errors (fmt.Errorf, strconv), which the
// library hands through without a position because the custom type is not the root; such inputs
// are not among the documents, and the documents are used verbatim (no content faults), as a
// truncated or damaged parenthesis would produce exactly these foreign errors.
// ---------------------------------------------------------------------------------------------

type x2dOperatorPrec struct{ Left, Right int }

var x2dOperatorPrecs = map[string]x2dOperatorPrec{
	"+": {1, 1},
	"-": {1, 1},
	"*": {3, 2},
	"/": {5, 4},
	"%": {7, 6},
}

type (
	x2dExpr interface{ expr() }

	x2dExprIdent  struct{ Name string }
	x2dExprString struct{ Value string }
	x2dExprNumber struct{ Value float64 }
	x2dExprParens struct{ Sub x2dExpr }

	x2dExprUnary struct {
		Op  string
		Sub x2dExpr
	}

	x2dExprBinary struct {
		Lhs x2dExpr
		Op  string
		Rhs x2dExpr
	}
)

func (x2dExprIdent) expr()  {}
func (x2dExprString) expr() {}
func (x2dExprNumber) expr() {}
func (x2dExprParens) expr() {}
func (x2dExprUnary) expr()  {}
func (x2dExprBinary) expr() {}

func x2dParseExprAny(lex *lexer.PeekingLexer) (x2dExpr, error) { return x2dParseExprPrec(lex, 0) }

func x2dParseExprAtom(lex *lexer.PeekingLexer) (x2dExpr, error) {
	switch peek := lex.Peek(); {
	case peek.Type == scanner.Ident:
		return x2dExprIdent{lex.Next().Value}, nil
	case peek.Type == scanner.String:
		val, err := strconv.Unquote(lex.Next().Value)
		if err != nil {
			return nil, err
		}
		return x2dExprString{val}, nil
	case peek.Type == scanner.Int || peek.Type == scanner.Float:
		val, err := strconv.ParseFloat(lex.Next().Value, 64)
		if err != nil {
			return nil, err
		}
		return x2dExprNumber{val}, nil
	case peek.Value == "(":
		_ = lex.Next()
		inner, err := x2dParseExprAny(lex)
		if err != nil {
			return nil, err
		}
		if lex.Peek().Value != ")" {
			return nil, fmt.Errorf("expected closing ')'")
		}
		_ = lex.Next()
		return x2dExprParens{inner}, nil
	default:
		return nil, participle.NextMatch
	}
}

func x2dParseExprPrec(lex *lexer.PeekingLexer, minPrec int) (x2dExpr, error) {
	var lhs x2dExpr
	if peeked := lex.Peek(); peeked.Value == "-" || peeked.Value == "!" {
		op := lex.Next().Value
		atom, err := x2dParseExprAtom(lex)
		if err != nil {
			return nil, err
		}
		lhs = x2dExprUnary{op, atom}
	} else {
		atom, err := x2dParseExprAtom(lex)
		if err != nil {
			return nil, err
		}
		lhs = atom
	}

	for {
		peek := lex.Peek()
		prec, isOp := x2dOperatorPrecs[peek.Value]
		if !isOp || prec.Left < minPrec {
			break
		}
		op := lex.Next().Value
		rhs, err := x2dParseExprPrec(lex, prec.Right)
		if err != nil {
			return nil, err
		}
		lhs = x2dExprBinary{lhs, op, rhs}
	}
	return lhs, nil
}

type x2dExpression struct {
	X x2dExpr `@@`
}

var worldEx2Expr4 = &world{
	name: "ex2-expr4", lexerKind: "text/scanner", junk: "", verbatim: true,
	build: func(o buildOpts) PH {
		opts := applyCommon(o, nil, nil)
		opts = append(opts, participle.ParseTypeWith(x2dParseExprAny))
		return mustPH[x2dExpression](nil, opts...)
	},
	docs: append(x2SampleDocs(`1`, `1.5`, `"a"`, `(1)`, `1+1`, `1-1`, `1*1`, `1/1`, `1%1`, `a - -b`,
		`a + b - c * d / e % f`, `a * b + c * d`, `(a + b) * (c + d)`), []doc{
		{name: "unicode", valid: true, text: "größe % \"zażółć \\\"gęślą\\\" ✓\" * -名前 // käse ☃\r\n\t+ (π / !ключ) /* ☃ */ - 1e3"},
		{name: "nest", valid: true, text: "((1))", nest: func(d int) string {
			return strings.Repeat("(", d) + "1" + strings.Repeat(")", d)
		}},
		{name: "nest-sum", valid: true, text: "1 + 1 - 1", nest: func(d int) string {
			return strings.Repeat("1 + ", d) + "1"
		}},
		{name: "empty", valid: false, text: ""},
		{name: "unary-mix", valid: true, text: "!a * -b % \"s\" - (-(c) / !(1.5 + d))"},
		{name: "unterminated-string", valid: false, text: "1 + \"never closed\n * 2"},
		{name: "long-char", valid: false, text: "a * 'bc' + 1"},
		{name: "raw-string", valid: false, text: "1 + `raw` * 2"},
		{name: "dangling-op", valid: false, text: "1 + * 2"},
		{name: "dangling-op-in-parens", valid: false, text: "(a * ) + c"},
		{name: "double-unary", valid: false, text: "1 + - - 2"},
		{name: "missing-op", valid: false, text: "(a + b) (c + d)"},
		{name: "stray-paren", valid: false, text: "(a + b) ) * c"},
	}...),
}

// ---------------------------------------------------------------------------------------------
// ex2-precedenceclimbing (_examples/precedenceclimbing): default text/scanner lexer, the root
// node is a Parseable that does precedence climbing over the PeekingLexer
//
// The example's Parse method PANICS on every syntax error it detects itself (an operator where
// a terminal is expected, a terminal that is not an integer, an unmatched parenthesis, a
// premature end of input), and the library does not recover panics of user code.  The world is
// therefore verbatim (no content faults are derived from its documents), and its invalid
// documents only fail in the lexer or with tokens left over after the expression.
// ---------------------------------------------------------------------------------------------

type x2pOpInfo struct {
	RightAssociative bool
	Priority         int
}

var x2pInfo = map[string]x2pOpInfo{
	"+": {Priority: 1},
	"-": {Priority: 1},
	"*": {Priority: 2},
	"/": {Priority: 2},
	"^": {RightAssociative: true, Priority: 3},
}

type x2pExpr struct {
	Terminal *int

	Left  *x2pExpr
	Op    string
	Right *x2pExpr
}

func (e *x2pExpr) Parse(lex *lexer.PeekingLexer) error {
	*e = *x2pParseExpr(lex, 0)
	return nil
}

// (1 + 2) * 3
func x2pParseExpr(lex *lexer.PeekingLexer, minPrec int) *x2pExpr {
	lhs := x2pParseAtom(lex)
	for {
		tok := x2pPeek(lex)
		if tok.EOF() || !x2pIsOp(rune(tok.Type)) || x2pInfo[tok.Value].Priority < minPrec {
			break
		}
		op := tok.Value
		nextMinPrec := x2pInfo[op].Priority
		if !x2pInfo[op].RightAssociative {
			nextMinPrec++
		}
		lex.Next()
		rhs := x2pParseExpr(lex, nextMinPrec)
		lhs = x2pParseOp(op, lhs, rhs)
	}
	return lhs
}
func x2pParseAtom(lex *lexer.PeekingLexer) *x2pExpr {
	tok := x2pPeek(lex)
	if tok.Type == '(' {
		lex.Next()
		val := x2pParseExpr(lex, 1)
		if x2pPeek(lex).Value != ")" {
			panic("unmatched (")
		}
		lex.Next()
		return val
	} else if tok.EOF() {
		panic("unexpected EOF")
	} else if x2pIsOp(rune(tok.Type)) {
		panic("expected a terminal not " + tok.String())
	} else {
		lex.Next()
		n, err := strconv.ParseInt(tok.Value, 10, 64)
		if err != nil {
			panic("invalid number " + tok.Value)
		}
		in := int(n)
		return &x2pExpr{Terminal: &in}
	}
}

func x2pIsOp(rn rune) bool {
	return strings.ContainsRune("+-*/^", rn)
}

func x2pPeek(lex *lexer.PeekingLexer) *lexer.Token {
	return lex.Peek()
}

func x2pParseOp(op string, lhs *x2pExpr, rhs *x2pExpr) *x2pExpr {
	return &x2pExpr{
		Op:    op,
		Left:  lhs,
		Right: rhs,
	}
}

var worldEx2PrecedenceClimbing = &world{
	name: "ex2-precedenceclimbing", lexerKind: "text/scanner", junk: "", verbatim: true,
	build: func(o buildOpts) PH {
		opts := applyCommon(o, nil, nil)
		return mustPH[x2pExpr](nil, opts...)
	},
	docs: append(x2SampleDocs(`1 + 2 - 3 * (4 + 2)`), []doc{
		{name: "commented", valid: true, text: "2 ^ 3 ^ 2 // zażółć gęślą jaźń ✓\r\n\t/ (7 - 1) /* 名前 ☃ */ * 10"},
		{name: "scalar", valid: true, text: "  42\n"},
		{name: "grouped", valid: true, text: "((2 + 3) * 4) ^ 2 / (5) - 6 / 3 / 2"},
		flatDoc("flat-sum", "1", " + 1", ""),
		flatDoc("flat-product", "2 ^ 2", " * 3 ^ 2", " - 1"),
		{name: "nest", valid: true, text: "((1))", nest: func(d int) string {
			return strings.Repeat("(", d) + "1" + strings.Repeat(")", d)
		}},
		{name: "nest-power", valid: true, text: "2 ^ 2 ^ 2", nest: func(d int) string {
			return strings.Repeat("2 ^ ", d) + "2"
		}},
		{name: "unterminated-string", valid: false, text: "1 + 2 * \"never closed\n - 3"},
		{name: "long-char", valid: false, text: "1 * 'bc' + 1"},
		{name: "missing-op", valid: false, text: "1 + 2 3 * 4"},
		{name: "stray-paren", valid: false, text: "(1 + 2) ) * 3"},
	}...),
}

// ---------------------------------------------------------------------------------------------
// ex2-simpleexpr (_examples/simpleexpr): default text/scanner lexer, no options, operators
// without precedence in one loop
// ---------------------------------------------------------------------------------------------

type x2sExpr struct {
	Lhs  *x2sValue  `@@`
	Tail []*x2sOper `@@*`
}

type x2sOper struct {
	Op  string    `@( "|" "|" | "&" "&" | "!" "=" | ("!"|"="|"<"|">") "="? | "+" | "-" | "/" | "*" )`
	Rhs *x2sValue `@@`
}

type x2sValue struct {
	Number        *float64 `  @Float | @Int`
	String        *string  `| @String`
	Bool          *string  `| ( @"true" | "false" )`
	Nil           bool     `| @"nil"`
	SubExpression *x2sExpr `| "(" @@ ")" `
}

var worldEx2SimpleExpr = &world{
	name: "ex2-simpleexpr", lexerKind: "text/scanner", junk: "",
	build: func(o buildOpts) PH {
		opts := applyCommon(o, nil, nil)
		return mustPH[x2sExpr](nil, opts...)
	},
	docs: append(x2SampleDocs(`1 + 2 / 3 * (1 + 2)`), []doc{
		{name: "unicode", valid: true, text: "\"zażółć gęślą jaźń ✓\" == \"名前\" // käse ☃\r\n\t|| (nil != true) && /* π */ 1.5 <= 2 ! false"},
		{name: "scalar", valid: true, text: "false"},
		flatDoc("flat-sum", "1", " + 1", ""),
		flatDoc("flat-mixed", "(1)", " >= \"ü\" && nil", " = 2"),
		{name: "nest", valid: true, text: "((1))", nest: func(d int) string {
			return strings.Repeat("(", d) + "1" + strings.Repeat(")", d)
		}},
		{name: "empty", valid: false, text: ""},
		{name: "unterminated-string", valid: false, text: "1 + \"never closed\n == 2"},
		{name: "bad-exponent", valid: false, text: "1 + 2e+ * 3"},
		{name: "identifier", valid: false, text: "1 + x * 2"},
		{name: "single-pipe", valid: false, text: "true | false || nil"},
		{name: "dangling-op", valid: false, text: "1 + * 2"},
		{name: "unbalanced", valid: false, text: "(1 + (2 * 3) - 4"},
	}...),
}

// ---------------------------------------------------------------------------------------------
// ex2-stateful (_examples/stateful): stateful lexer with Push / Pop / Include (string
// interpolation), Elide("Whitespace")
// ---------------------------------------------------------------------------------------------

type x2tTerminal struct {
	String *x2tString `  @@`
	Ident  string     `| @Ident`
}

type x2tExpr struct {
	Left  *x2tTerminal `@@`
	Op    string       `( @Oper`
	Right *x2tTerminal `  @@)?`
}

type x2tFragment struct {
	Escaped string   `(  @Escaped`
	Expr    *x2tExpr ` | "${" @@ "}"`
	Text    string   ` | @Char)`
}

type x2tString struct {
	Fragments []*x2tFragment `"\"" @@* "\""`
}

func x2tRules() lexer.Rules {
	return lexer.Rules{
		"Root": {
			{Name: `String`, Pattern: `"`, Action: lexer.Push("String")},
		},
		"String": {
			{Name: "Escaped", Pattern: `\\.`, Action: nil},
			{Name: "StringEnd", Pattern: `"`, Action: lexer.Pop()},
			{Name: "Expr", Pattern: `\${`, Action: lexer.Push("Expr")},
			{Name: "Char", Pattern: `\$|[^$"\\]+`, Action: nil},
		},
		"Expr": {
			lexer.Include("Root"),
			{Name: `Whitespace`, Pattern: `\s+`, Action: nil},
			{Name: `Oper`, Pattern: `[-+/*%]`, Action: nil},
			{Name: "Ident", Pattern: `\w+`, Action: nil},
			{Name: "ExprEnd", Pattern: `}`, Action: lexer.Pop()},
		},
	}
}

var worldEx2Stateful = &world{
	name: "ex2-stateful", lexerKind: "stateful", junk: "",
	build: func(o buildOpts) PH {
		opts := applyCommon(o, lexer.MustStateful(x2tRules()), nil)
		return mustPH[x2tString]([]string{"Whitespace"}, opts...)
	},
	docs: append(x2SampleDocs(`"hello $(world) ${first + "${last}"}"`), []doc{
		{name: "unicode", valid: true, text: "\"zażółć gęślą jaźń ✓ \\\" \\ж $ ${name_1 *\r\n\t\"名前 ☃\"} ${ \"\" } käse\\\\\""},
		{name: "empty-string", valid: true, text: `""`},
		flatDoc("flat-fragments", `"a`, `${x}b`, `"`),
		flatDoc("flat-escapes", `"`, `\n$`, `z"`),
		{name: "nest", valid: true, text: `"${"${"x"}"}"`, nest: func(d int) string {
			return strings.Repeat(`"${`, d) + `"x"` + strings.Repeat(`}"`, d)
		}},
		{name: "empty", valid: false, text: ""},
		{name: "text-after-string", valid: false, text: `"hello ${first}" + "world"`},
		{name: "bad-char-in-expr", valid: false, text: `"hello ${first ? last} world"`},
		{name: "escape-at-end", valid: false, text: `"hello ${"world \`},
		{name: "two-operators", valid: false, text: `"hello ${a + b + c} world"`},
		{name: "dangling-op", valid: false, text: `"hello ${first + } world"`},
		{name: "unclosed", valid: false, text: `"hello ${first + "world"`},
	}...),
}

// ---------------------------------------------------------------------------------------------
// ex2-generics (_examples/generics): default text/scanner lexer, UseLookahead(1024), a positive
// lookahead group that disambiguates "<" after an expression
//
// Under lookahead 1 the example's first sample fails (the parser commits to Generic after
// `hello < world`), hence fixedLookaheads.  Nested calls backtrack exponentially when they are
// damaged (every `f(` can be read as a call or as `f` followed by a parenthesised parameter):
// "f(" repeated k times and nothing else takes 12ms for k=8, 82ms for 12, 0.65s for 16, 3.3s for
// 20 and more than 15s for 24 under lookaheads 0, 2, MaxLookahead and -1 on the unchanged tree.
// So there is no nested specimen of calls; plain parentheses and `a.a.a.b` chains stay linear
// also when truncated.
// ---------------------------------------------------------------------------------------------

type x2gGeneric struct {
	Params []string `"<" (@Ident ","?)+ ">" (?= ("(" | ")" | "]" | ":" | ";" | "," | "." | "?" | "=" "=" | "!" "="))`
}

type x2gCall struct {
	Params []*x2gExpr `( @@ ","?)*`
}

type x2gTerminal struct {
	Ident  string   `  @Ident`
	Number int      `| @Int`
	Sub    *x2gExpr `| "(" @@ ")"`
}

type x2gExpr struct {
	Terminal *x2gTerminal `@@`

	Generic *x2gGeneric `( @@`
	RHS     *x2gRHS     `  | @@ )?`

	Call      *x2gCall `(   "(" @@ ")"`
	Reference *x2gExpr `  | "." @@ )?`
}

type x2gRHS struct {
	Oper string   `@("<" | ">" | "=" "=" | "!" "=" | "+" | "-" | "*" | "/" | "&" "&")`
	RHS  *x2gExpr `@@`
}

var worldEx2Generics = &world{
	name: "ex2-generics", lexerKind: "text/scanner", junk: "",
	fixedLookaheads: []int{0, 2, participle.MaxLookahead, -1},
	build: func(o buildOpts) PH {
		opts := applyCommon(o, nil, nil)
		if o.lookahead == 0 {
			opts = append(opts, participle.UseLookahead(1024))
		}
		return mustPH[x2gExpr](nil, opts...)
	},
	docs: append(x2SampleDocs("hello < world * (1 + 3) && (world > 10)", "type<int, string>.method(1, 2, 3)"), []doc{
		{name: "unicode", valid: true, text: "größe<名前, ключ>.π(1 2, (ж != 3)) // zażółć ✓\r\n"},
		flatDoc("flat-args", "f(0", ", 1", ")"),
		flatDoc("flat-params", "t<a", ", b", ">.m()"),
		{name: "nest", valid: true, text: "((1))", nest: func(d int) string {
			return strings.Repeat("(", d) + "1" + strings.Repeat(")", d)
		}},
		{name: "calls", valid: true, text: "f(g(1), h<a>(2), x.y(3 * z))"},
		{name: "nest-ref", valid: true, text: "a.a.b", nest: func(d int) string {
			return strings.Repeat("a.", d) + "b"
		}},
		{name: "empty", valid: false, text: ""},
		{name: "unterminated-string", valid: false, text: "a + \"never closed\n * 2"},
		{name: "long-char", valid: false, text: "a * 'bc' + 1"},
		{name: "string-operand", valid: false, text: "a + \"s\" * 2"},
		{name: "dangling-op", valid: false, text: "a + * 2"},
		{name: "unbalanced", valid: false, text: "f(1, (2 * 3), 4"},
	}...),
}

// ---------------------------------------------------------------------------------------------
// ex2-ebnf (_examples/ebnf, the example program): default text/scanner lexer, no options
// ---------------------------------------------------------------------------------------------

type x2eGroup struct {
	Expression *x2eExpression `"(" @@ ")"`
}

type x2eOption struct {
	Expression *x2eExpression `"[" @@ "]"`
}

type x2eRepetition struct {
	Expression *x2eExpression `"{" @@ "}"`
}

type x2eLiteral struct {
	Start string `@String` // Lexer token "String"
	End   string `( "…" @String )?`
}

type x2eTerm struct {
	Name       string         `@Ident |`
	Literal    *x2eLiteral    `@@ |`
	Group      *x2eGroup      `@@ |`
	Option     *x2eOption     `@@ |`
	Repetition *x2eRepetition `@@`
}

type x2eSequence struct {
	Terms []*x2eTerm `@@+`
}

type x2eExpression struct {
	Alternatives []*x2eSequence `@@ ( "|" @@ )*`
}

type x2eExpressions []*x2eExpression

type x2eProduction struct {
	Name        string         `@Ident "="`
	Expressions x2eExpressions `@@+ "."`
}

type x2eEBNF struct {
	Productions []*x2eProduction `@@*`
}

const x2eSample = `
Production  = name "=" [ Expression ] "." .
  Expression  = Alternative { "|" Alternative } .
  Alternative = Term { Term } .
  Term        = name | token [ "…" token ] | Group | Option | Repetition .
  Group       = "(" Expression ")" .
  Option      = "[" Expression "]" .
  Repetition  = "{" Expression "}" .`

var worldEx2EBNF = &world{
	name: "ex2-ebnf", lexerKind: "text/scanner", junk: "",
	build: func(o buildOpts) PH {
		opts := applyCommon(o, nil, nil)
		return mustPH[x2eEBNF](nil, opts...)
	},
	docs: append(x2SampleDocs(x2eSample), []doc{
		{name: "unicode", valid: true, text: "Größe = \"a\" … \"z\" | \"zażółć ✓\" { 名前 } . // käse ☃\r\nключ = ( Größe [ \"raw\" ] ) /* π */ .\r\n"},
		flatDoc("flat-productions", "", "A = b .\n", ""),
		flatDoc("flat-terms", "A = b", " \"c\" d", " .\n"),
		flatDoc("flat-alternatives", "A = b", " | c [ d ]", " .\n"),
		{name: "nest", valid: true, text: "A = ((b)) .", nest: func(d int) string {
			return "A = " + strings.Repeat("(", d) + "b" + strings.Repeat(")", d) + " ."
		}},
		{name: "nest-mixed", valid: true, text: "A = { [ ( b ) ] } .", nest: func(d int) string {
			open, shut := []string{"{ ", "[ ", "( "}, []string{"} ", "] ", ") "}
			var b strings.Builder
			b.WriteString("A = ")
			for i := 0; i < d; i++ {
				b.WriteString(open[i%3])
			}
			b.WriteString("b ")
			for i := d - 1; i >= 0; i-- {
				b.WriteString(shut[i%3])
			}
			b.WriteString(".")
			return b.String()
		}},
		{name: "empty", valid: true, text: ""},
		{name: "only-comment", valid: true, text: "// nothing here\n"},
		{name: "unterminated-string", valid: false, text: "A = b .\nB = \"never closed .\nC = d .\n"},
		{name: "empty-production", valid: false, text: "A = b .\nB = .\nC = d .\n"},
		{name: "missing-dot", valid: false, text: "A = b\nB = c .\n"},
		{name: "range-of-names", valid: false, text: "A = a … z .\nB = c .\n"},
		{name: "unclosed", valid: false, text: "A = { b [ c } .\n"},
	}...),
}

// ---------------------------------------------------------------------------------------------
// ex2-basic (_examples/basic): the example's full grammar (ast.go) and its simple stateful lexer
// (main.go), CaseInsensitive, Unquote, UseLookahead(2), a Capture implementation.  Comments (REM)
// are tokens of the grammar here, and end-of-line tokens are significant.
// ---------------------------------------------------------------------------------------------

func x2bsRules() []lexer.SimpleRule {
	return []lexer.SimpleRule{
		{Name: "Comment", Pattern: `(?i)rem[^\n]*`},
		{Name: "String", Pattern: `"(\\"|[^"])*"`},
		{Name: "Number", Pattern: `[-+]?(\d*\.)?\d+`},
		{Name: "Ident", Pattern: `[a-zA-Z_]\w*`},
		{Name: "Punct", Pattern: `[-[!@#$%^&*()+_={}\|:;"'<,>.?/]|]`},
		{Name: "EOL", Pattern: `[\n\r]+`},
		{Name: "whitespace", Pattern: `[ \t]+`},
	}
}

type x2bsProgram struct {
	Pos lexer.Position

	Commands []*x2bsCommand `@@*`

	Table map[int]*x2bsCommand
}

type x2bsCommand struct {
	Pos lexer.Position

	Index int

	Line int `@Number`

	Remark *x2bsRemark `(   @@`
	Input  *x2bsInput  `  | @@`
	Let    *x2bsLet    `  | @@`
	Goto   *x2bsGoto   `  | @@`
	If     *x2bsIf     `  | @@`
	Print  *x2bsPrint  `  | @@`
	Call   *x2bsCall   `  | @@ ) EOL`
}

type x2bsRemark struct {
	Pos lexer.Position

	Comment string `@Comment`
}

type x2bsCall struct {
	Pos lexer.Position

	Name string            `@Ident`
	Args []*x2bsExpression `"(" ( @@ ( "," @@ )* )? ")"`
}

type x2bsPrint struct {
	Pos lexer.Position

	Expression *x2bsExpression `"PRINT" @@`
}

type x2bsInput struct {
	Pos lexer.Position

	Variable string `"INPUT" @Ident`
}

type x2bsLet struct {
	Pos lexer.Position

	Variable string          `"LET" @Ident`
	Value    *x2bsExpression `"=" @@`
}

type x2bsGoto struct {
	Pos lexer.Position

	Line int `"GOTO" @Number`
}

type x2bsIf struct {
	Pos lexer.Position

	Condition *x2bsExpression `"IF" @@`
	Line      int             `"THEN" @Number`
}

type x2bsOperator string

func (o *x2bsOperator) Capture(s []string) error {
	*o = x2bsOperator(strings.Join(s, ""))
	return nil
}

type x2bsValue struct {
	Pos lexer.Position

	Number        *float64        `  @Number`
	Variable      *string         `| @Ident`
	String        *string         `| @String`
	Call          *x2bsCall       `| @@`
	Subexpression *x2bsExpression `| "(" @@ ")"`
}

type x2bsFactor struct {
	Pos lexer.Position

	Base     *x2bsValue `@@`
	Exponent *x2bsValue `( "^" @@ )?`
}

type x2bsOpFactor struct {
	Pos lexer.Position

	Operator x2bsOperator `@("*" | "/")`
	Factor   *x2bsFactor  `@@`
}

type x2bsTerm struct {
	Pos lexer.Position

	Left  *x2bsFactor     `@@`
	Right []*x2bsOpFactor `@@*`
}

type x2bsOpTerm struct {
	Pos lexer.Position

	Operator x2bsOperator `@("+" | "-")`
	Term     *x2bsTerm    `@@`
}

type x2bsCmp struct {
	Pos lexer.Position

	Left  *x2bsTerm     `@@`
	Right []*x2bsOpTerm `@@*`
}

type x2bsOpCmp struct {
	Pos lexer.Position

	Operator x2bsOperator `@("=" | "<" "=" | ">" "=" | "<" | ">" | "!" "=")`
	Cmp      *x2bsCmp     `@@`
}

type x2bsExpression struct {
	Pos lexer.Position

	Left  *x2bsCmp     `@@`
	Right []*x2bsOpCmp `@@*`
}

// _examples/basic/example.bas
const x2bsExample = ` 5  REM inputting the argument
10  PRINT "Factorial of:"
20  INPUT A
30  LET B = 1
35  REM beginning of the loop
40  IF A <= 1 THEN 80
50  LET B = B * A
60  LET A = A - 1
70  GOTO 40
75  REM prints the result
80  PRINT B
`

// _examples/basic/hidden.bas
const x2bsHidden = `10 PRINT "Give the hidden number: "
20 INPUT N
30 PRINT "Give a number: "
40 INPUT R
50 IF R = N THEN 110
60 IF R < N THEN 90
70 PRINT "C-"
80 GOTO 30
90 PRINT "C+"
100 GOTO 30
110 PRINT "CONGRATULATIONS"
`

// the program of _examples/basic/main_test.go
const x2bsTest = `5  REM inputting the argument
10  PRINT "Factorial of:"
20  INPUT A
30  LET B = 1
35  REM beginning of the loop
40  IF A <= 1 THEN 80
50  LET B = B * A
60  LET A = A - 1
70  GOTO 40
75  REM prints the result
80  PRINT B
`

var worldEx2Basic = &world{
	name: "ex2-basic", lexerKind: "stateful", junk: "",
	build: func(o buildOpts) PH {
		opts := applyCommon(o, lexer.MustSimple(x2bsRules()), nil)
		opts = append(opts, participle.CaseInsensitive("Ident"), participle.Unquote("String"))
		if o.lookahead == 0 {
			opts = append(opts, participle.UseLookahead(2))
		}
		return mustPH[x2bsProgram](nil, opts...)
	},
	docs: append(x2SampleDocs(x2bsExample, x2bsHidden, x2bsTest), []doc{
		{name: "unicode", valid: true, text: "10 rem zażółć gęślą jaźń ✓\r\n20 print \"名前 \\\"ünï\\\" ☃\" + X ^ 2\r\n30 Let y = ( 1.5 + ( .5 * Y ) ) / -3 >= 2 != 0\n40 ADD(1, y, \"π\")\n50 noargs()\n"},
		flatDoc("flat-lines", "", "10 GOTO 10\n", ""),
		flatDoc("flat-sum", "10 PRINT 1", " + 1", "\n"),
		flatDoc("flat-args", "10 F(0", ", 1", ")\n"),
		flatDoc("flat-compare", "10 IF A", " < B * 2", " THEN 10\n"),
		{name: "nest", valid: true, text: "10 PRINT ((1))\n", nest: func(d int) string {
			return "10 PRINT " + strings.Repeat("(", d) + "1" + strings.Repeat(")", d) + "\n"
		}},
		{name: "empty", valid: true, text: ""},
		{name: "no-eol", valid: false, text: "10 PRINT 1"},
		{name: "lone-quote", valid: false, text: "10 PRINT 1\n20 PRINT \"never closed\n30 GOTO 10\n"},
		{name: "bad-char", valid: false, text: "10 PRINT 1\n20 PRINT ~A\n30 GOTO 10\n"},
		{name: "non-ascii-ident", valid: false, text: "10 PRINT 1\n20 LET größe = 2\n30 GOTO 10\n"},
		{name: "bad-goto", valid: false, text: "10 PRINT 1\n20 GOTO X\n30 GOTO 10\n"},
		{name: "signed-operand", valid: false, text: "10 LET A = A -1\n20 GOTO 10\n"},
		{name: "call-in-expression", valid: false, text: "10 PRINT ADD(1, 2)\n20 GOTO 10\n"},
		{name: "remark-eats-ident", valid: false, text: "10 LET remainder = 1\n20 GOTO 10\n"},
	}...),
}

// ---------------------------------------------------------------------------------------------
// ex2-ini (_examples/ini): the example's own simple stateful lexer, Unquote, Union
// ---------------------------------------------------------------------------------------------

func x2inRules() []lexer.SimpleRule {
	return []lexer.SimpleRule{
		{Name: `Ident`, Pattern: `[a-zA-Z][a-zA-Z_\d]*`},
		{Name: `String`, Pattern: `"(?:\\.|[^"])*"`},
		{Name: `Float`, Pattern: `\d+(?:\.\d+)?`},
		{Name: `Punct`, Pattern: `[][=]`},
		{Name: "comment", Pattern: `[#;][^\n]*`},
		{Name: "whitespace", Pattern: `\s+`},
	}
}

type x2inINI struct {
	Properties []*x2inProperty `@@*`
	Sections   []*x2inSection  `@@*`
}

type x2inSection struct {
	Identifier string          `"[" @Ident "]"`
	Properties []*x2inProperty `@@*`
}

type x2inProperty struct {
	Key   string    `@Ident "="`
	Value x2inValue `@@`
}

type x2inValue interface{ value() }

type x2inString struct {
	String string `@String`
}

func (x2inString) value() {}

type x2inNumber struct {
	Number float64 `@Float`
}

func (x2inNumber) value() {}

// _examples/ini/example.ini
const x2inExample = `a = "a"
b = 123

# A comment
[numbers]
a = 10.3
b = 20

; Another comment
[strings]
a = "\"quoted\""
b = "b"
`

// the input of _examples/ini/main_test.go
const x2inTest = `
global = 1

[section]
value = "str"
`

var worldEx2Ini = &world{
	name: "ex2-ini", lexerKind: "stateful", junk: "",
	build: func(o buildOpts) PH {
		opts := applyCommon(o, lexer.MustSimple(x2inRules()), nil)
		opts = append(opts, participle.Unquote("String"),
			participle.Union[x2inValue](x2inString{}, x2inNumber{}))
		return mustPH[x2inINI](nil, opts...)
	},
	docs: append(x2SampleDocs(x2inExample, x2inTest), []doc{
		{name: "unicode", valid: true, text: "title = \"zażółć gęślą jaźń ✓\" # käse ☃\r\n[sec_1]\r\nname = \"名前\nsecond \\\"line\\\" \\u00e9\" ; ключ\npi = 3.14159\r\n"},
		flatDoc("flat-props", "k0 = 0\n", "k = 1\n", "[end]\nz = \"z\"\n"),
		flatDoc("flat-sections", "", "[s]\na = 1\n", ""),
		flatDoc("flat-empty-sections", "a = 1\n", "[s]", "\n"),
		{name: "empty", valid: true, text: ""},
		{name: "only-comment", valid: true, text: "# nothing here"},
		{name: "unterminated-string", valid: false, text: "a = 1\nb = \"never closed\nc = 3\n"},
		{name: "non-ascii-ident", valid: false, text: "a = 1\ngröße = 2\nc = 3\n"},
		{name: "bad-escape", valid: false, text: "a = 1\nb = \"\\q\"\nc = 3\n"},
		{name: "missing-value", valid: false, text: "a = \n[b]\nc = 1\n"},
		{name: "ident-value", valid: false, text: "a = 1\nb = yes\nc = 3\n"},
		{name: "property-after-nothing", valid: false, text: "[sec\nx = 1\n"},
	}...),
}

// ---------------------------------------------------------------------------------------------
// all worlds of this file and the lexer definitions of those that bring their own lexer
// ---------------------------------------------------------------------------------------------

var exampleWorlds2 = []*world{
	worldEx2Expr, worldEx2Expr2, worldEx2Expr3, worldEx2Expr4, worldEx2PrecedenceClimbing,
	worldEx2SimpleExpr, worldEx2Stateful, worldEx2Generics, worldEx2EBNF, worldEx2Basic, worldEx2Ini,
}

var exampleLexDefs2 = []*lexDef{
	{name: "ex2-stateful-lexer", rules: x2tRules, build: func() lexer.Definition { return lexer.MustStateful(x2tRules()) },
		corpus: exDocTexts(worldEx2Stateful.docs)},
	{name: "ex2-basic-lexer", build: func() lexer.Definition { return lexer.MustSimple(x2bsRules()) },
		corpus: exDocTexts(worldEx2Basic.docs)},
	{name: "ex2-ini-lexer", build: func() lexer.Definition { return lexer.MustSimple(x2inRules()) },
		corpus: exDocTexts(worldEx2Ini.docs)},
}
