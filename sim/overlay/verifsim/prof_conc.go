package main

import (
	"encoding/json"
	"fmt"
	"os"
	"os/exec"
	"sort"
	"strings"
	"sync"
	"time"

	"github.com/alecthomas/participle/v2"
	"github.com/alecthomas/participle/v2/ebnf"
	"github.com/alecthomas/participle/v2/lexer"
	"github.com/alecthomas/participle/v2/simrt"
)

// C09 — concurrent and repeated use: seeded schedules x histories, oracles O-iso and O-race.

func init() {
	register(&profile{warm: warmConc, id: "C09", num: 9, name: "concurrency", run: runConcurrency})
}

type sharedParser struct {
	w       *world
	o       buildOpts
	variant string
	p       PH
}

type sharedDef struct {
	ld   *lexDef
	gen  bool
	name string
	def  lexer.Definition
}

type concOp struct {
	kind  string
	pi    int // shared parser index (parser ops)
	di    int // shared definition index (definition ops)
	input string
	rd    *SimReader
	key   string
	// failing-reader operations: the reader fails after delivering prefix; the call may fail, or it
	// must return exactly what the same call returns for the delivered prefix
	relaxed bool
	prefix  string
}

// sharedParseOpts is built before any task exists and only read afterwards.
var sharedParseOpts []participle.ParseOption

// scribble overwrites a buffer the caller owns, after the call it was handed to has returned.
func scribble(b []byte) {
	for i := range b {
		b[i] = '#'
	}
}

const failedOrError = "error (allowed: the reader failed)"

// mailbox passes errors between tasks the way a real program would: under a mutex the race
// detector can see.
type mailbox struct {
	mu   sync.Mutex
	errs []error
}

var strategyNames = []string{"sequential", "random-walk", "park-at-hot-site", "pct", "park-at-sync-call"}

func execParserOp(op *concOp, p PH, w *world, mb *mailbox, reference bool) string {
	const name = "conc.txt"
	var res callResult
	switch op.kind {
	case "ParseString":
		res = call(func() (interface{}, error) { return p.ParseString(name, op.input) })
	case "ParseBytes":
		// the buffer is the caller's: in the concurrent history it is refilled as soon as the call
		// has returned (the isolated reference call's buffer is left alone)
		buf := []byte(op.input)
		res = call(func() (interface{}, error) { return p.ParseBytes(name, buf) })
		if !reference {
			scribble(buf)
		}
	case "Parse":
		res = call(func() (interface{}, error) {
			if reference || op.rd == nil {
				return p.Parse(name, strings.NewReader(op.input))
			}
			return p.Parse(name, op.rd)
		})
	case "ParseFromLexer":
		res = call(func() (interface{}, error) {
			lx, err := p.Lexer().Lex(name, strings.NewReader(op.input))
			if err != nil {
				return nil, err
			}
			pl, err := lexer.Upgrade(yieldingLexer{lx}, p.Elided()...)
			if err != nil {
				return nil, err
			}
			return p.ParseFromLexer(pl)
		})
	case "ParseFailingReader":
		res = call(func() (interface{}, error) {
			if reference {
				return p.ParseString(name, op.prefix)
			}
			return p.Parse(name, op.rd)
		})
		if res.Err != nil || res.Panic != "" {
			return failedOrError
		}
	case "Parser.Lex":
		res = lexCall(func() ([]lexer.Token, error) { return p.Lex(name, strings.NewReader(op.input)) })
	case "Parser.String":
		res = call(func() (interface{}, error) { s := p.String(); return &s, nil })
	case "ParseTrace":
		res = call(func() (interface{}, error) {
			w := &SimWriter{}
			return p.ParseString(name, op.input, participle.Trace(w))
		})
	case "ParseSharedOptions":
		// option values built once by the program and handed to every call (a package-level
		// []ParseOption); the isolated reference uses values of its own
		opts := sharedParseOpts
		if reference {
			opts = []participle.ParseOption{participle.Trace(discardSink{})}
		}
		res = call(func() (interface{}, error) { return p.ParseString(name, op.input, opts...) })
	case "ParserForProduction":
		res = call(func() (interface{}, error) { return exprProduction(p, op.input) })
	case "PostError":
		// parse, and hand the error (if any) to whoever wants to render it
		res = call(func() (interface{}, error) { return p.ParseString(name, op.input) })
		if res.Err != nil && mb != nil {
			mb.mu.Lock()
			mb.errs = append(mb.errs, res.Err)
			mb.mu.Unlock()
		}
	}
	return res.desc()
}

func exprProduction(p PH, input string) (interface{}, error) {
	h, ok := p.(*ph[exFile])
	if !ok {
		return nil, fmt.Errorf("not the expr world")
	}
	sub, err := participle.ParserForProduction[exExpr](h.p)
	if err != nil {
		return nil, err
	}
	return sub.ParseString("prod.txt", input)
}

func execDefOp(op *concOp, def lexer.Definition, reference bool) string {
	const name = "def.txt"
	consume := func(mk func() (lexer.Lexer, error)) callResult {
		return lexCall(func() ([]lexer.Token, error) {
			lx, err := mk()
			if err != nil {
				return nil, err
			}
			return lexer.ConsumeAll(lx)
		})
	}
	var res callResult
	var lexBuf []byte
	switch op.kind {
	case "Def.Lex":
		res = consume(func() (lexer.Lexer, error) { return def.Lex(name, strings.NewReader(op.input)) })
	case "Def.LexString":
		res = consume(func() (lexer.Lexer, error) {
			if sd, ok := def.(lexer.StringDefinition); ok {
				return sd.LexString(name, op.input)
			}
			return def.Lex(name, strings.NewReader(op.input))
		})
	case "Def.LexBytes":
		res = consume(func() (lexer.Lexer, error) {
			if bd, ok := def.(lexer.BytesDefinition); ok {
				lexBuf = []byte(op.input)
				return bd.LexBytes(name, lexBuf)
			}
			return def.Lex(name, strings.NewReader(op.input))
		})
		if !reference {
			scribble(lexBuf)
		}
	case "Def.LexFailingReader":
		res = consume(func() (lexer.Lexer, error) {
			if op.rd != nil {
				return def.Lex(name, op.rd)
			}
			return def.Lex(name, strings.NewReader(op.prefix))
		})
		if res.Err != nil || res.Panic != "" {
			return failedOrError
		}
	case "Def.Symbols":
		res = call(func() (interface{}, error) { s := symbolsDesc(def.Symbols()); return &s, nil })
	case "Def.Rules":
		res = call(func() (interface{}, error) {
			sd, ok := def.(*lexer.StatefulDefinition)
			if !ok {
				s := "n/a"
				return &s, nil
			}
			s := rulesDesc(sd.Rules())
			return &s, nil
		})
	case "Def.MarshalJSON":
		res = call(func() (interface{}, error) {
			if _, ok := def.(*lexer.StatefulDefinition); !ok {
				s := "n/a"
				return &s, nil
			}
			b, err := json.Marshal(def)
			s := string(b)
			return &s, err
		})
	case "MakeSymbolTable":
		res = call(func() (interface{}, error) {
			var names []string
			for k := range def.Symbols() {
				names = append(names, k)
			}
			sort.Strings(names)
			if len(names) > 3 {
				names = names[:3]
			}
			tbl, err := lexer.MakeSymbolTable(def, names...)
			var parts []string
			for k, v := range tbl {
				parts = append(parts, fmt.Sprintf("%d=%v", k, v))
			}
			sort.Strings(parts)
			s := strings.Join(parts, ",")
			return &s, err
		})
	case "SymbolsByRune":
		res = call(func() (interface{}, error) {
			m := lexer.SymbolsByRune(def)
			var parts []string
			for k, v := range m {
				parts = append(parts, fmt.Sprintf("%d=%s", k, v))
			}
			sort.Strings(parts)
			s := strings.Join(parts, ",")
			return &s, nil
		})
	}
	return res.desc()
}

func symbolsDesc(m map[string]lexer.TokenType) string {
	var parts []string
	for k, v := range m {
		parts = append(parts, fmt.Sprintf("%s=%d", k, v))
	}
	sort.Strings(parts)
	return strings.Join(parts, ",")
}

func rulesDesc(r lexer.Rules) string {
	var states []string
	for k := range r {
		states = append(states, k)
	}
	sort.Strings(states)
	var b strings.Builder
	for _, st := range states {
		b.WriteString(st + ":[")
		for _, rule := range r[st] {
			fmt.Fprintf(&b, "%s/%s/%v;", rule.Name, rule.Pattern, rule.Action)
		}
		b.WriteString("]")
	}
	return b.String()
}

func execEbnfOp(op *concOp, reference bool) string {
	var res callResult
	switch op.kind {
	case "ebnf.ParseString":
		res = call(func() (interface{}, error) {
			if reference {
				p, err := participle.Build[ebnf.EBNF]()
				if err != nil {
					return nil, err
				}
				return p.ParseString("", op.input)
			}
			return ebnf.ParseString(op.input)
		})
	case "ebnf.Parse":
		res = call(func() (interface{}, error) {
			if reference {
				p, err := participle.Build[ebnf.EBNF]()
				if err != nil {
					return nil, err
				}
				return p.Parse("", strings.NewReader(op.input))
			}
			if op.rd != nil {
				return ebnf.Parse(op.rd)
			}
			return ebnf.Parse(strings.NewReader(op.input))
		})
	}
	return res.desc()
}

// process-wide memo of the first result seen for an operation on a generated definition (which has
// no constructor, hence no fresh instance): later results must equal it.
var genMemo = map[string]string{}

// refMemo remembers isolated reference results across the runs of a worker process.
var refMemo = map[string]string{}
var refMemoHits int64

var parserOpKinds = []string{"ParseString", "ParseBytes", "Parse", "ParseFromLexer", "Parser.Lex", "Parser.String", "PostError", "ParseString", "ParseString", "ParseFailingReader", "ParseTrace", "ParseSharedOptions"}
var defOpKinds = []string{"Def.Lex", "Def.LexString", "Def.LexBytes", "Def.Symbols", "Def.Rules", "Def.MarshalJSON", "SymbolsByRune", "Def.LexString", "Def.LexString", "Def.LexFailingReader", "MakeSymbolTable"}

func runConcurrency(rc *RunCtx) *Violation {
	capAbort.Store(false)
	if simrt.Choose(64) == 1 && buildOrderChecked {
		rc.probe("build-order clause: two option sets of one grammar type, built in either order in two processes")
		if buildOrderMismatch != "" {
			return &Violation{Signature: "iso/build-order", Detail: buildOrderMismatch}
		}
	}
	delims := runDelims(rc.seed)
	simrt.ShuffleMaps = true
	sharedParseOpts = []participle.ParseOption{participle.Trace(discardSink{})}
	// ---- shared objects, built before any task exists --------------------------------------
	var parsers []*sharedParser
	var defs []*sharedDef
	np := 1 + simrt.Choose(2)
	// sync focus: one parser whose parses were seen (in the warm-up, on this very tree) to call
	// methods of sync / sync/atomic values, tasks restricted to the documents that do so, and the
	// schedule that parks exactly there
	var syncWorld *world
	if simrt.Choose(6) == 1 && len(syncProf.worlds) > 0 {
		syncWorld = syncProf.worlds[simrt.Choose(len(syncProf.worlds))]
		np = 1
		rc.probe("sync focus: world and documents that execute sync/atomic calls, parks at those calls")
	}
	for i := 0; i < np; i++ {
		w := pickAnyParser()
		if i == 0 && simrt.Choose(2) == 1 {
			w = worldHeredoc // the one definition with a cache written during lexing
		}
		if syncWorld != nil {
			w = syncWorld
		}
		o, variant := drawBuild(w)
		var p PH
		if pn := catch(func() { p = w.build(o) }); pn != "" {
			return &Violation{Signature: "conc/" + w.name + "/build-panic", Detail: pn}
		}
		parsers = append(parsers, &sharedParser{w: w, o: o, variant: variant, p: p})
		rc.agg.Worlds[w.name]++
	}
	nd := simrt.Choose(3)
	if syncWorld != nil {
		nd = 0
	}
	genAndRuntime := map[string]int{}
	for i := 0; i < nd; i++ {
		ld := lexDefs[simrt.Choose(len(lexDefs))]
		sd := &sharedDef{ld: ld, name: ld.name}
		if ld.genName != "" && generatedDefs[ld.genName] != nil && simrt.Choose(2) == 1 {
			sd.gen = true
			sd.name += "(generated)"
			sd.def = generatedDefs[ld.genName]
			genAndRuntime[ld.name] |= 1
		} else {
			sd.def = ld.build()
			genAndRuntime[ld.name] |= 2
		}
		defs = append(defs, sd)
		rc.agg.Worlds["lexdef:"+sd.name]++
	}
	for _, v := range genAndRuntime {
		if v == 3 {
			rc.probe("generated and runtime lexer of the same rules shared in one run")
		}
	}
	useEbnf := simrt.Choose(3) == 1 && syncWorld == nil
	var grammars []string
	if useEbnf {
		for _, sp := range parsers {
			sp := sp
			if r := call(func() (interface{}, error) { s := sp.p.String(); return &s, nil }); r.Panic == "" {
				grammars = append(grammars, *(r.Val.(*string)))
			}
		}
		grammars = append(grammars, "A = \"a\" B* .\nB = <ident> | (\"(\" A \")\")+ .", "Broken = ( \"x\" ")
		rc.agg.Worlds["ebnf(package-level parser)"]++
	}
	simrt.ShuffleMaps = simrt.Choose(2) == 1
	mb := &mailbox{}
	withFaults := simrt.Choose(2) == 1 && syncWorld == nil
	// long history: a long-lived process has pushed hundreds of distinct keys through the shared
	// back-reference cache before the concurrent phase, and keeps adding new ones during it
	churn := 0
	if (parsers[0].w == worldHeredoc) && simrt.Choose(12) == 1 {
		churn = 150 + simrt.Choose(160)
		rc.probe("long sequential history (hundreds of distinct cache keys) before the concurrent phase")
	}
	focusDocs := make([][]string, len(parsers))
	if simrt.Choose(2) == 1 {
		rc.probe("tasks restricted to two documents per parser (collisions on the same grammar paths)")
		for i, sp := range parsers {
			if sp.w.verbatim || backtrackingWorlds[sp.w.name] {
				continue
			}
			for k := 0; k < 2; k++ {
				focusDocs[i] = append(focusDocs[i], sp.w.docs[simrt.Choose(len(sp.w.docs))].text)
			}
		}
	}
	if syncWorld != nil {
		focusDocs[0] = nil
		ds := syncProf.docs[syncWorld.name]
		for k := 0; k < 3; k++ {
			focusDocs[0] = append(focusDocs[0], ds[simrt.Choose(len(ds))])
		}
	}
	deepRun := simrt.Choose(16) == 1 && syncWorld == nil
	if deepRun {
		rc.probe("all tasks parse deeply nested input (350-500 levels) concurrently")
	}
	opSerial := 0
	opDelims := func() [3]string {
		if churn == 0 {
			return delims
		}
		opSerial++
		var d [3]string
		for i := range d {
			d[i] = fmt.Sprintf("%sq%d%c", delims[0][:6], opSerial, 'a'+i)
		}
		return d
	}

	// ---- plan ---------------------------------------------------------------------------------
	drawOp := func() *concOp {
		op := &concOp{}
		r := simrt.Choose(10)
		switch {
		case useEbnf && r < 2:
			op.kind = []string{"ebnf.ParseString", "ebnf.Parse"}[simrt.Choose(2)]
			op.input = grammars[simrt.Choose(len(grammars))]
			if op.kind == "ebnf.Parse" {
				op.rd = newSimReader(rc, op.input, nil, readerOpts{})
			}
			op.key = op.kind + "|" + op.input
		case len(defs) > 0 && r < 5:
			op.di = simrt.Choose(len(defs))
			sd := defs[op.di]
			op.kind = defOpKinds[simrt.Choose(len(defOpKinds))]
			x := sd.ld.corpus[simrt.Choose(len(sd.ld.corpus))]
			if sd.ld.delims {
				x = instantiate(x, delims)
			}
			op.input = x
			if withFaults {
				op.input, _ = deriveInput(rc, x, nil, allContentFaults)
			}
			if op.kind == "Def.LexFailingReader" {
				op.rd = newSimReader(rc, op.input, nil, readerOpts{})
				op.rd.errAfter = simrt.Choose(len(op.input) + 1)
				op.relaxed = true
				op.prefix = op.input[:op.rd.errAfter]
				op.input = op.prefix + "|fails"
			}
			op.key = fmt.Sprintf("d%d|%s|%s", op.di, op.kind, op.input)
		default:
			op.pi = simrt.Choose(len(parsers))
			sp := parsers[op.pi]
			op.kind = parserOpKinds[simrt.Choose(len(parserOpKinds))]
			if sp.w == worldExpr && simrt.Choose(6) == 1 {
				op.kind = "ParserForProduction"
				op.input = []string{"1 + 2 * (3 - y)", "f(x, g(1))", "(", "a b"}[simrt.Choose(4)]
			} else {
				x, _ := drawDoc(sp.w, opDelims(), 24)
				if focus := focusDocs[op.pi]; focus != nil {
					// tasks collide on the same few documents
					x = instantiate(focus[simrt.Choose(len(focus))], opDelims())
				}
				if deepRun && !backtrackingWorlds[sp.w.name] {
					// all tasks work on deeply nested input at the same time
					var nests []*doc
					for i := range sp.w.docs {
						if sp.w.docs[i].nest != nil {
							nests = append(nests, &sp.w.docs[i])
						}
					}
					if len(nests) > 0 {
						x = instantiate(nests[simrt.Choose(len(nests))].nest(350+simrt.Choose(150)), delims)
					}
				}
				op.input = x
				if withFaults && !sp.w.verbatim {
					op.input, _ = deriveInput(rc, x, nil, allContentFaults)
				}
			}
			if op.kind == "Parse" {
				op.rd = newSimReader(rc, op.input, nil, readerOpts{})
			}
			if op.kind == "ParseFailingReader" {
				op.rd = newSimReader(rc, op.input, nil, readerOpts{})
				op.rd.errAfter = simrt.Choose(len(op.input) + 1)
				op.relaxed = true
				op.prefix = op.input[:op.rd.errAfter]
				op.input = op.prefix + "|fails"
			}
			op.key = fmt.Sprintf("p%d|%s|%s", op.pi, op.kind, op.input)
		}
		return op
	}
	var execInner func(op *concOp, reference bool) string
	// every execution runs under a generous logical step cap so that a pathological parse cannot
	// stall the batch; outside a task the call gets an inline pseudo-task of its own
	// the cap can also run out while the harness renders a result through small instrumented
	// helpers after the call proper: that is a cut-off like any other
	guarded := func(op *concOp, reference bool) (out string) {
		defer func() {
			if p := recover(); p != nil {
				ce, ok := p.(simrt.CapExceeded)
				if !ok {
					panic(p)
				}
				out = callResult{Panic: fmt.Sprintf("step cap exceeded after %d steps", ce.Steps)}.desc()
			}
		}()
		return execInner(op, reference)
	}
	exec := func(op *concOp, reference bool) string {
		const opCap = 6000000
		if simrt.TaskID() >= 0 {
			base := simrt.Depth()
			simrt.OpBegin(opCap)
			out := guarded(op, reference)
			simrt.OpEnd(base)
			return out
		}
		var out string
		simrt.RunInline(func() {
			simrt.OpBegin(opCap)
			out = guarded(op, reference)
			simrt.OpEnd(0)
		})
		return out
	}
	execInner = func(op *concOp, reference bool) string {
		switch {
		case strings.HasPrefix(op.kind, "ebnf."):
			return execEbnfOp(op, reference)
		case strings.HasPrefix(op.kind, "Def.") || op.kind == "SymbolsByRune" || op.kind == "MakeSymbolTable":
			sd := defs[op.di]
			def := sd.def
			if reference && !sd.gen {
				def = sd.ld.build()
			}
			return execDefOp(op, def, reference)
		default:
			sp := parsers[op.pi]
			p := sp.p
			var box *mailbox
			if !reference {
				box = mb
			} else {
				p = sp.w.build(sp.o)
			}
			return execParserOp(op, p, sp.w, box, reference)
		}
	}

	nPrefix := 0
	if simrt.Choose(2) == 1 {
		nPrefix = simrt.Choose(bound(11, 31))
	}
	var prefix []*concOp
	for i := 0; i < nPrefix; i++ {
		prefix = append(prefix, drawOp())
	}
	for i := 0; i < churn; i++ {
		d := opDelims()
		op := &concOp{kind: "Parser.Lex", pi: 0, input: "<<" + d[0] + " w " + d[0] + ";"}
		op.key = fmt.Sprintf("p0|%s|%s", op.kind, op.input)
		prefix = append(prefix, op)
	}
	nTasks := 2 + simrt.Choose(bound(5, 7))
	if deepRun && nTasks < 4 {
		nTasks = 4
	}
	taskOps := make([][]*concOp, nTasks)
	for t := range taskOps {
		n := 1 + simrt.Choose(bound(6, 8))
		for i := 0; i < n; i++ {
			op := drawOp()
			if op.rd != nil {
				// a reader belongs to exactly one call
			}
			taskOps[t] = append(taskOps[t], op)
		}
		// some tasks render errors that other tasks posted
		if simrt.Choose(4) == 1 {
			taskOps[t] = append(taskOps[t], &concOp{kind: "RenderPosted", key: "RenderPosted"})
		}
	}

	type opResult struct {
		op   *concOp
		desc string
		by   string
	}
	var results []opResult

	// ---- phase 1: sequential prefix on the shared instances --------------------------------
	for _, op := range prefix {
		results = append(results, opResult{op, exec(op, false), "prefix"})
	}

	// ---- phase 2: concurrent ------------------------------------------------------------------
	cfg := simrt.Config{Strategy: simrt.Choose(simrt.NumStrategies), MaxYields: 3000000}
	cfg.GapScale = []int{4, 16, 64, 256, 1024, 4096}[simrt.Choose(6)]
	cfg.ParkDen = []int{2, 4, 8, 16, 64}[simrt.Choose(5)]
	cfg.SyncResumeAny = simrt.Choose(2) == 1
	cfg.PCTDepth = 1 + simrt.Choose(3)
	cfg.PCTLen = []int{1000, 10000, 100000}[simrt.Choose(3)]
	if deepRun {
		// keep all tasks advancing together so that they are deep at the same time
		cfg.Strategy = simrt.StratWalk
		cfg.GapScale = []int{256, 1024, 4096}[simrt.Choose(3)]
	}
	if syncWorld != nil {
		cfg.Strategy = simrt.StratSyncPark
	}
	stratName := ""
	if schedTarget != nil {
		// directed witness schedule requested by the replay file
		cfg.Strategy = simrt.StratTarget
		cfg.TargetPark = sitesOf(schedTarget.Park)
		cfg.TargetPeer = sitesOf(schedTarget.Peer)
		cfg.TargetNth = schedTarget.Nth
		stratName = fmt.Sprintf("target(park before %s, resume after a peer executed %s, arrival %d)", schedTarget.Park, schedTarget.Peer, schedTarget.Nth)
	} else {
		stratName = strategyNames[cfg.Strategy]
	}
	rc.agg.Strategies[stratName]++
	taskResults := make([][]opResult, nTasks)
	fns := make([]func(), nTasks)
	for t := range fns {
		t := t
		fns[t] = func() {
			for _, op := range taskOps[t] {
				simrt.YieldPoint(simrt.SiteOpBoundary)
				if op.kind == "RenderPosted" {
					mb.mu.Lock()
					errs := append([]error(nil), mb.errs...)
					mb.mu.Unlock()
					var parts []string
					for _, e := range errs {
						parts = append(parts, errDesc(e))
					}
					taskResults[t] = append(taskResults[t], opResult{op, strings.Join(parts, " || "), fmt.Sprintf("task %d", t)})
					continue
				}
				taskResults[t] = append(taskResults[t], opResult{op, exec(op, false), fmt.Sprintf("task %d", t)})
			}
		}
	}
	st, stalled := simrt.RunTasks(cfg, fns, 180*time.Second)
	if stalled {
		rc.agg.Stalled = true
		return nil
	}
	rc.agg.SimSteps += st.Yields
	rc.agg.Switches += st.Switches
	rc.agg.StmtSwitch += st.StmtSwitches
	rc.agg.HotSwitch += st.HotSwitches
	rc.agg.Parks += st.Parks
	rc.agg.Directed += st.DirectedResumes
	if int64(st.MaxDepth) > rc.agg.MaxDepth {
		rc.agg.MaxDepth = int64(st.MaxDepth)
	}
	for _, p := range st.Pairs {
		rc.agg.pairs[p] = struct{}{}
	}
	if st.Discard {
		rc.agg.Discarded++
	}
	if len(st.TaskPanics) > 0 {
		return &Violation{Signature: "conc/harness/task-panic", Detail: "a task panicked outside an operation (harness fault?): " + strings.Join(st.TaskPanics, "; ")}
	}
	posted := 0
	for t := range taskResults {
		for _, r := range taskResults[t] {
			if r.op.kind == "RenderPosted" {
				if r.desc != "" {
					rc.probe("error rendered by a task other than its producer")
				}
				posted++
				continue
			}
			results = append(results, r)
		}
	}
	for t := range taskOps {
		for _, op := range taskOps[t] {
			if op.rd != nil {
				op.rd.account(rc)
			}
		}
	}

	// ---- phase 3: quiescent read-back: every distinct operation once more, sequentially -----
	var readbackRefs []*concOp
	seen := map[string]bool{}
	var distinctOps []*concOp
	for _, r := range results {
		if !seen[r.op.key] {
			seen[r.op.key] = true
			distinctOps = append(distinctOps, r.op)
		}
	}
	for _, op := range distinctOps {
		cp := *op
		cp.rd = nil
		if cp.kind == "PostError" {
			cp.kind = "ParseString"
		}
		if cp.relaxed {
			// read back as the plain call over the delivered prefix
			cp.relaxed = false
			cp.input = cp.prefix
			if cp.kind == "ParseFailingReader" {
				cp.kind = "ParseString"
			} else {
				cp.kind = "Def.Lex"
			}
			cp.key = "readback|" + op.key
			results = append(results, opResult{&cp, exec(&cp, false), "read-back"})
			readbackRefs = append(readbackRefs, &cp)
			continue
		}
		results = append(results, opResult{&cp, exec(&cp, false), "read-back"})
	}

	// ---- references: computed last, each on an instance constructed for that one call ---------
	simrt.ShuffleMaps = false
	refs := map[string]string{}
	for _, op := range distinctOps {
		cp := *op
		cp.rd = nil
		if cp.kind == "PostError" {
			cp.kind = "ParseString"
		}
		isGen := (strings.HasPrefix(op.kind, "Def.") || op.kind == "SymbolsByRune" || op.kind == "MakeSymbolTable") && defs[op.di].gen
		if isGen {
			mk := defs[op.di].name + "|" + op.kind + "|" + op.input
			ref, ok := genMemo[mk]
			if !ok {
				ref = exec(&cp, true)
				if len(genMemo) < 20000 {
					genMemo[mk] = ref
				}
			}
			refs[op.key] = ref
			continue
		}
		// the isolated result of a call is a function of (grammar, build variant, operation, input);
		// remember it across runs unless the input carries this run's private delimiters
		memoKey := ""
		if !strings.HasPrefix(op.kind, "ebnf.") && !strings.Contains(op.input, delims[0][:8]) {
			owner := ""
			if strings.HasPrefix(op.kind, "Def.") || op.kind == "SymbolsByRune" || op.kind == "MakeSymbolTable" {
				owner = "def:" + defs[op.di].name
			} else {
				owner = parsers[op.pi].w.name + "|" + parsers[op.pi].variant
			}
			memoKey = owner + "|" + cp.kind + "|" + op.input + "|" + op.prefix
		}
		if memoKey != "" {
			if ref, ok := refMemo[memoKey]; ok {
				refs[op.key] = ref
				refMemoHits++
				continue
			}
		}
		ref := exec(&cp, true)
		if memoKey != "" && len(refMemo) < 60000 {
			refMemo[memoKey] = ref
		}
		refs[op.key] = ref
	}
	for _, op := range readbackRefs {
		refs[op.key] = exec(op, true)
	}
	capAbort.Store(false)
	const cutOff = "panic: step cap exceeded"
	for _, r := range results {
		ref := refs[r.op.key]
		simrt.HashEvent(hashString(r.desc))
		if strings.HasPrefix(ref, cutOff) {
			// the isolated call itself is cut off by the stall guard: nothing to compare with
			rc.probe("operation cut off by the stall guard in isolation too (not judged)")
			continue
		}
		if strings.HasPrefix(r.desc, cutOff) {
			// the shared instance needs more than 6 million logical steps for a call that a fresh
			// instance finishes: what was done to it before changed its behaviour
			r.desc = "no result within 6000000 logical steps (the same call on a fresh instance returns)"
		}
		if r.op.relaxed && r.desc == failedOrError {
			rc.fault("read-error")
			continue
		}
		if r.op.relaxed && ref == failedOrError {
			// the delivered prefix does not parse: any error is fine, a value is not
			ref = "an error (the delivered prefix does not parse)"
		}
		if r.desc != ref {
			what := "shared parser"
			where := ""
			switch {
			case strings.HasPrefix(r.op.kind, "ebnf."):
				what = "package-level ebnf parser"
			case strings.HasPrefix(r.op.kind, "Def.") || r.op.kind == "SymbolsByRune" || r.op.kind == "MakeSymbolTable":
				what = "shared definition " + defs[r.op.di].name
				where = defs[r.op.di].name
			default:
				what = fmt.Sprintf("shared parser of world %s [%s]", parsers[r.op.pi].w.name, parsers[r.op.pi].variant)
				where = parsers[r.op.pi].w.name
			}
			phase := "concurrent"
			if r.by == "prefix" || r.by == "read-back" {
				phase = r.by
			}
			return &Violation{Signature: fmt.Sprintf("iso/%s/%s/%s", where, r.op.kind, phase),
				Detail: fmt.Sprintf("%s on the %s (%s, strategy %s, %d tasks, %d context switches) returned %s but the same call on a fresh instance used in isolation returns %s; input=%s",
					r.op.kind, what, r.by, stratName, nTasks, st.Switches, clip(r.desc, 500), clip(ref, 500), quoteClip(r.op.input, 200)),
				Input: r.op.input}
		}
	}

	// ---- coverage ---------------------------------------------------------------------------
	var multiset []string
	for _, r := range results {
		multiset = append(multiset, r.op.kind)
	}
	sort.Strings(multiset)
	rc.nontriv = st.StmtSwitches > 0
	rc.keyAdd(fmt.Sprint(st.SwitchHash), strings.Join(multiset, ","))
	if nPrefix > 0 {
		rc.probe("sequential prefix before the concurrent phase")
	}
	if withFaults {
		rc.probe("fault-derived inputs (error paths run concurrently)")
	}
	// collisions on back-reference cache keys: >= 2 tasks lexing heredoc input in this run
	hd := 0
	for t := range taskOps {
		for _, op := range taskOps[t] {
			if strings.Contains(op.input, "<<"+delims[0][:4]) {
				hd++
				break
			}
		}
	}
	if hd >= 2 && st.StmtSwitches > 0 {
		rc.probe("two or more tasks lexing heredocs with the run's delimiters under statement-level switches")
	}
	var plan []string
	for t := range taskOps {
		var ks []string
		for _, op := range taskOps[t] {
			ks = append(ks, op.kind)
		}
		plan = append(plan, fmt.Sprintf("task%d: %s", t, strings.Join(ks, " ")))
	}
	var shared []string
	for _, sp := range parsers {
		shared = append(shared, sp.w.name+" ["+sp.variant+"]")
	}
	for _, sd := range defs {
		shared = append(shared, "def "+sd.name)
	}
	if useEbnf {
		shared = append(shared, "ebnf package parser")
	}
	rc.note("shared", shared)
	rc.note("strategy", stratName)
	rc.note("prefix_ops", nPrefix)
	rc.note("tasks", plan)
	rc.note("yields", st.Yields)
	rc.note("switches", fmt.Sprintf("%d (statement-level %d, at hot sites %d, parks %d, directed resumes %d)", st.Switches, st.StmtSwitches, st.HotSwitches, st.Parks, st.DirectedResumes))
	rc.note("operations_compared_with_isolated_reference", len(results))
	return nil
}

func sitesOf(loc string) []int32 {
	i := strings.LastIndex(loc, ":")
	if i < 0 {
		return nil
	}
	var line int
	fmt.Sscanf(loc[i+1:], "%d", &line)
	return simrt.SitesAt(loc[:i], line)
}

// syncProf lists, for the tree under test, the worlds and documents whose parses execute at least
// one statement that calls a method of a sync or sync/atomic value (the code's own declared shared
// words).  It is computed once per process before the first run, with the choice tape off, from
// the code alone, so a replay in a fresh process computes the same lists.
var syncProf struct {
	worlds []*world
	docs   map[string][]string
}

func warmConc() {
	warmBuildOrder()
	syncProf.docs = map[string][]string{}
	fixed := [3]string{"WARMa", "WARMb", "WARMc"}
	for _, list := range [][]*world{coreWorlds, miniWorlds, exampleWorlds, exampleWorlds2} {
		for _, w := range list {
			if w.verbatim || backtrackingWorlds[w.name] {
				continue
			}
			var p PH
			if catch(func() { p = w.build(buildOpts{}) }) != "" {
				continue
			}
			for _, d := range w.docs {
				x := instantiate(d.text, fixed)
				before := simrt.SyncSiteHits
				simrt.RunInline(func() {
					simrt.OpBegin(2000000)
					call(func() (interface{}, error) { return p.ParseString("warm", x) })
					simrt.OpEnd(0)
				})
				if simrt.SyncSiteHits > before {
					syncProf.docs[w.name] = append(syncProf.docs[w.name], d.text)
				}
			}
			if len(syncProf.docs[w.name]) > 0 {
				syncProf.worlds = append(syncProf.worlds, w)
			}
		}
	}
	capAbort.Store(false)
}

// ---------------------------------------------------------------------------------------------
// Build-order clause: what a parser computes does not depend on which other parsers were built
// earlier in the process.  The isolated reference of O-iso is a fresh instance in THIS process; a
// process-wide cache keyed too coarsely would poison it alike.  So, for the worlds that have a
// second option set for the same grammar type, the worker asks a fresh process of its own binary
// (which builds the two option sets in the opposite order) for its results and compares.
// ---------------------------------------------------------------------------------------------

// variantResults builds, per world with an altBuild, the two option sets in the given order and
// renders the result of every document under both.
func variantResults(altFirst bool) map[string]string {
	out := map[string]string{}
	fixed := [3]string{"VARa", "VARb", "VARc"}
	for _, list := range [][]*world{coreWorlds, miniWorlds, exampleWorlds, exampleWorlds2} {
		for _, w := range list {
			if w.altBuild == nil {
				continue
			}
			var normal, alt PH
			if altFirst {
				alt = w.altBuild(buildOpts{})
				normal = w.build(buildOpts{})
			} else {
				normal = w.build(buildOpts{})
				alt = w.altBuild(buildOpts{})
			}
			for _, d := range w.docs {
				x := instantiate(d.text, fixed)
				for name, p := range map[string]PH{"normal": normal, "alt": alt} {
					p := p
					var desc string
					simrt.RunInline(func() {
						simrt.OpBegin(2000000)
						desc = call(func() (interface{}, error) { return p.ParseString("variant", x) }).desc()
						simrt.OpEnd(0)
					})
					out[w.name+"/"+name+"/"+d.name] = desc
				}
			}
		}
	}
	capAbort.Store(false)
	return out
}

func refVariantsMain() {
	b, _ := json.Marshal(variantResults(true))
	os.Stdout.Write(b)
}

// buildOrderMismatch is computed once per process (warm-up): "" or a description of the first
// difference between this process (normal option set built first) and a fresh process (the other
// option set built first).
var buildOrderMismatch string
var buildOrderChecked bool

func warmBuildOrder() {
	local := variantResults(false)
	if len(local) == 0 {
		return
	}
	cmd := exec.Command(os.Args[0], "refvariants")
	cmd.Env = os.Environ()
	outb, err := cmd.Output()
	if err != nil {
		fmt.Fprintf(os.Stderr, "verifsim: refvariants process failed: %v\n", err)
		os.Exit(2)
	}
	remote := map[string]string{}
	if err := json.Unmarshal(outb, &remote); err != nil {
		fmt.Fprintf(os.Stderr, "verifsim: refvariants output unreadable: %v\n", err)
		os.Exit(2)
	}
	buildOrderChecked = true
	keys := make([]string, 0, len(local))
	for k := range local {
		keys = append(keys, k)
	}
	sort.Strings(keys)
	for _, k := range keys {
		if local[k] != remote[k] {
			buildOrderMismatch = fmt.Sprintf("%s: this process (which built the world's usual option set first and the other one second) returns %s; a fresh process that built them in the opposite order returns %s", k, clip(local[k], 300), clip(remote[k], 300))
			return
		}
	}
}
