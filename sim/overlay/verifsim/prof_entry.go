package main

import (
	"bufio"
	"bytes"
	"fmt"
	"io"
	"reflect"
	"sort"
	"strings"
	"sync/atomic"
	"text/scanner"
	"unicode/utf8"

	"github.com/alecthomas/participle/v2"
	"github.com/alecthomas/participle/v2/lexer"
	"github.com/alecthomas/participle/v2/simrt"
)

// C15 — all entry points agree, under seeded delivery schedules and endpoint faults.

func init() { register(&profile{id: "C15", num: 15, name: "entrypoints", run: runEntrypoints}) }

// capAbort is set when a call was cut off by a logical step cap that no clause of the running
// profile is about (C15, C09): the run is then discarded, never judged.
var capAbort atomic.Bool

func call(f func() (interface{}, error)) (r callResult) {
	defer func() {
		if p := recover(); p != nil {
			if ce, ok := p.(simrt.CapExceeded); ok {
				capAbort.Store(true)
				r = callResult{Panic: fmt.Sprintf("step cap exceeded after %d steps", ce.Steps)}
				return
			}
			if dl, ok := p.(simrt.Deadlock); ok {
				r = callResult{Panic: "deadlock: blocked on a mutex nobody can release any more, at " + dl.At}
				return
			}
			r = callResult{Panic: panicString(p)}
		}
	}()
	v, err := f()
	return callResult{Val: v, Err: err}
}

func lexCall(f func() ([]lexer.Token, error)) (r callResult) {
	return call(func() (interface{}, error) {
		t, err := f()
		if t == nil {
			return nil, err
		}
		return t, err
	})
}

// drawBuild draws a build variant for a world.
func drawBuild(w *world) (buildOpts, string) {
	o := buildOpts{}
	las := w.lookaheads()
	o.lookahead = las[simrt.Choose(len(las))]
	o.narrow = simrt.Choose(3) == 1
	o.mapped = simrt.Choose(3) == 1
	if w.hasGen != nil && w.hasGen() {
		o.generated = simrt.Choose(2) == 1
	}
	return o, fmt.Sprintf("la=%d narrow=%v mapped=%v generated=%v", o.lookahead, o.narrow, o.mapped, o.generated)
}

// drawDoc draws a corpus document, possibly with its flat unit repeated or a nested specimen.
// backtrackingWorlds are worlds whose grammar backtracks exponentially on invalid nested input
// (recorded finding for C06); only profiles that run every call under a logical step cap feed
// them deeply nested specimens.
var backtrackingWorlds = map[string]bool{"ex-sql": true}

func drawDoc(w *world, delims [3]string, maxRepeat int, capped ...bool) (string, *doc) {
	d := &w.docs[simrt.Choose(len(w.docs))]
	text := d.text
	if d.nest != nil && backtrackingWorlds[w.name] && !(len(capped) > 0 && capped[0]) {
		return instantiate(text, delims), d
	}
	switch {
	case d.unitLen > 0 && simrt.Choose(2) == 1:
		text = d.expand(1 + simrt.Choose(maxRepeat))
	case d.nest != nil && simrt.Choose(2) == 1:
		if simrt.Choose(8) == 1 {
			text = d.nest(60 + simrt.Choose(340)) // moderately deep: up to a few hundred levels
		} else {
			text = d.nest(1 + simrt.Choose(12))
		}
	}
	return instantiate(text, delims), d
}

// fileNames are the filenames handed to the entry points (never empty here: the empty name has
// clauses of its own).
var fileNames = []string{"file.txt", "file.txt", "dir/with space.txt", "ünï-✓.src", "a:b:1:2.txt", "-"}

func tokenEnds(toks []lexer.Token) []int {
	var ends []int
	for _, t := range toks {
		if !t.EOF() {
			ends = append(ends, t.Pos.Offset+len(t.Value))
		}
	}
	sort.Ints(ends)
	return ends
}

func runEntrypoints(rc *RunCtx) *Violation {
	var v *Violation
	capAbort.Store(false)
	defer func() { capAbort.Store(false) }()
	simrt.RunInline(func() {
		base := simrt.Depth()
		simrt.OpBegin(20000000) // no clause depends on it; it only keeps a pathological parse from stalling the batch
		func() {
			// the cap can also run out while the harness itself calls a small instrumented helper
			// (Token.EOF, Position.Advance) between two calls: the run is discarded all the same
			defer func() {
				if p := recover(); p != nil {
					if _, ok := p.(simrt.CapExceeded); ok {
						capAbort.Store(true)
						return
					}
					panic(p)
				}
			}()
			if simrt.Choose(5) == 1 {
				v = entryLexDefs(rc)
			} else {
				v = entryParser(rc)
			}
		}()
		steps, _, _ := simrt.OpEnd(base)
		rc.agg.SimSteps += steps
	})
	if capAbort.Load() {
		rc.agg.Discarded++
		return nil
	}
	return v
}

// entryLexDefs: clause 4 on the raw lexer definitions.
func entryLexDefs(rc *RunCtx) *Violation {
	ld := lexDefs[simrt.Choose(len(lexDefs))]
	var def lexer.Definition
	name := ld.name
	if ld.genName != "" && generatedDefs[ld.genName] != nil && simrt.Choose(2) == 1 {
		def = generatedDefs[ld.genName]
		name += "(generated)"
	} else {
		simrt.ShuffleMaps = true
		def = ld.build()
		simrt.ShuffleMaps = false
	}
	rc.agg.Worlds["lexdef:"+name]++
	x := ld.corpus[simrt.Choose(len(ld.corpus))]
	if ld.delims {
		x = instantiate(x, runDelims(rc.seed))
	}
	d := x
	var fired []string
	if subBatch != "faultfree" {
		d, fired = deriveInput(rc, x, hotOffsets(def, x), allContentFaults)
	}
	viol := func(clause, detail string) *Violation {
		return &Violation{Signature: "entry/lexdef:" + name + "/" + clause, Detail: fmt.Sprintf("%s; input=%s", detail, quoteClip(d, 200)), Input: d}
	}
	consume := func(mk func() (lexer.Lexer, error)) callResult {
		return lexCall(func() ([]lexer.Token, error) {
			lx, err := mk()
			if err != nil {
				return nil, err
			}
			return lexer.ConsumeAll(lx)
		})
	}
	r := newSimReader(rc, d, hotOffsets(def, d), readerOpts{})
	viaReader := consume(func() (lexer.Lexer, error) { return def.Lex("n.txt", r) })
	r.account(rc)
	results := map[string]callResult{"Lex": viaReader}
	if sd, ok := def.(lexer.StringDefinition); ok {
		results["LexString"] = consume(func() (lexer.Lexer, error) { return sd.LexString("n.txt", d) })
	}
	if bd, ok := def.(lexer.BytesDefinition); ok {
		results["LexBytes"] = consume(func() (lexer.Lexer, error) { return bd.LexBytes("n.txt", []byte(d)) })
	}
	if ld.name == "text-scanner" {
		// the package-level conveniences of the default lexer
		results["lexer.LexString"] = consume(func() (lexer.Lexer, error) { return lexer.LexString("n.txt", d), nil })
		results["lexer.LexBytes"] = consume(func() (lexer.Lexer, error) { return lexer.LexBytes("n.txt", []byte(d)), nil })
		r7 := newSimReader(rc, d, nil, readerOpts{})
		results["lexer.Lex"] = consume(func() (lexer.Lexer, error) { return lexer.Lex("n.txt", r7), nil })
		r7.account(rc)
		results["lexer.LexWithScanner"] = consume(func() (lexer.Lexer, error) {
			sc := &scanner.Scanner{}
			sc.Init(strings.NewReader(d))
			lx := lexer.LexWithScanner("n.txt", sc)
			return lx, nil
		})
	}
	whole := consume(func() (lexer.Lexer, error) { return def.Lex("n.txt", strings.NewReader(d)) })
	for _, k := range []string{"Lex", "LexString", "LexBytes", "lexer.LexString", "lexer.LexBytes", "lexer.Lex", "lexer.LexWithScanner"} {
		res, ok := results[k]
		if !ok {
			continue
		}
		if k == "lexer.LexWithScanner" && whole.Err != nil {
			continue // a user-provided scanner keeps its own error handler: only token streams are compared
		}
		if !sameResult(whole, res) {
			return viol("token-streams-differ", fmt.Sprintf("%s (reader schedule %s, %d reads) = %s but Lex over the whole input = %s", k, r.shape, r.reads, clip(res.desc(), 400), clip(whole.desc(), 400)))
		}
	}
	simrt.HashEvent(hashString(whole.desc()))
	rc.nontriv = r.reads >= 2 && whole.Panic == ""
	outcome := "tokens"
	if whole.Err != nil {
		outcome = "lex-error"
		rc.probe("lexer error compared across definition entry points")
	}
	rc.agg.Outcomes["lexdef-"+outcome]++
	sort.Strings(fired)
	rc.keyAdd("lexdef", name, r.shape, outcome, strings.Join(fired, ","), d)
	rc.note("kind", "definition entry points")
	rc.note("definition", name)
	rc.note("delivered", clip(d, 160))
	rc.note("schedule", fmt.Sprintf("%s reads=%d stutter=%v eof-with-data=%v", r.shape, r.reads, len(r.stutterAt) > 0, r.eofWithData))
	return nil
}

func entryParser(rc *RunCtx) *Violation {
	w := pickAnyParser()
	o, variant := drawBuild(w)
	delims := runDelims(rc.seed)
	var p PH
	simrt.ShuffleMaps = true
	pn := catch(func() { p = w.build(o) })
	// in half of the runs the order of every map iteration during lexing and parsing stays under
	// the tape too (Go randomises it; no result may depend on it)
	simrt.ShuffleMaps = simrt.Choose(2) == 1
	if pn != "" {
		return &Violation{Signature: "entry/" + w.name + "/build-panic", Detail: pn}
	}
	rc.agg.Worlds[w.name]++
	x, dc := drawDoc(w, delims, 6)
	d := x
	var fired []string
	if subBatch != "faultfree" && !w.verbatim {
		d, fired = deriveInput(rc, x, nil, allContentFaults)
	}
	// now and then an input larger than any internal buffer, with one very long token placed
	// across a power-of-two offset (where chunked readers and copy loops have their seams)
	if dc.unitLen > 0 && !w.verbatim && simrt.Choose(bound(50, 20)) == 1 {
		target := []int{40000, 70000, 140000}[simrt.Choose(3)]
		big := instantiate(dc.expand(1+target/dc.unitLen), delims)
		seam := []int{32768, 65536, 131072}[simrt.Choose(3)]
		if seam < len(big)-16 {
			run := 4200 + simrt.Choose(5000)
			at := seam - simrt.Choose(run)
			for at > 0 && !utf8.RuneStart(big[at]) {
				at--
			}
			ch := []string{"a", "é", "7"}[simrt.Choose(3)]
			big = big[:at] + strings.Repeat(ch, run) + big[at:]
			rc.fault("huge-input-long-token-across-seam")
		}
		d = big
		fired = append(fired, "huge")
	}
	name := fileNames[simrt.Choose(len(fileNames))]
	viol := func(clause, detail string) *Violation {
		return &Violation{Signature: "entry/" + w.name + "/" + clause,
			Detail: fmt.Sprintf("%s; world=%s variant=[%s] doc=%s input=%s", detail, w.name, variant, dc.name, quoteClip(d, 200)), Input: d}
	}
	pivot := call(func() (interface{}, error) { return p.ParseString(name, d) })
	if pivot.Panic != "" {
		// not this property's business (C06); all entry points must still agree, checked below
		rc.probe("pivot call panicked")
	}
	simrt.HashEvent(hashString(pivot.desc()))
	// results stay what they were: parse a different document, then look at the pivot again
	if simrt.Choose(2) == 1 {
		before := pivot.desc()
		other := w.docs[simrt.Choose(len(w.docs))]
		otherText := instantiate(other.text, delims) + " "
		call(func() (interface{}, error) { return p.ParseString("other.txt", otherText) })
		call(func() (interface{}, error) { return p.ParseBytes("other.txt", []byte(otherText)) })
		if after := pivot.desc(); after != before {
			return viol("result-changed-after-later-call", fmt.Sprintf("the result of ParseString changed after later calls on the same parser: was %s, now %s", clip(before, 400), clip(after, 400)))
		}
	}

	// token positions for aiming splits
	var toks []lexer.Token
	lexed := lexCall(func() ([]lexer.Token, error) { return p.Lex(name, strings.NewReader(d)) })
	if t, ok := lexed.Val.([]lexer.Token); ok {
		toks = t
	}
	ends := tokenEnds(toks)

	// clause 1: reader, bytes, lexer-driven
	r := newSimReader(rc, d, ends, readerOpts{})
	viaReader := call(func() (interface{}, error) { return p.Parse(name, r) })
	r.account(rc)
	if !sameResult(pivot, viaReader) {
		return viol("Parse-vs-ParseString", fmt.Sprintf("Parse over a reader (schedule %s, %d reads, eof-with-data=%v) = %s but ParseString = %s", r.shape, r.reads, r.eofWithData, clip(viaReader.desc(), 500), clip(pivot.desc(), 500)))
	}
	callerBuf := []byte(d)
	viaBytes := call(func() (interface{}, error) { return p.ParseBytes(name, callerBuf) })
	for i := range callerBuf {
		callerBuf[i] = 'X' // the caller reuses its buffer: the result must not change with it
	}
	if !sameResult(pivot, viaBytes) {
		return viol("ParseBytes-vs-ParseString", fmt.Sprintf("ParseBytes = %s but ParseString = %s", clip(viaBytes.desc(), 500), clip(pivot.desc(), 500)))
	}
	r2 := newSimReader(rc, d, ends, readerOpts{})
	viaLexer := call(func() (interface{}, error) {
		lx, err := p.Lexer().Lex(name, r2)
		if err != nil {
			return nil, err
		}
		pl, err := lexer.Upgrade(lx, p.Elided()...)
		if err != nil {
			return nil, err
		}
		return p.ParseFromLexer(pl)
	})
	r2.account(rc)
	if !sameResult(pivot, viaLexer) {
		return viol("ParseFromLexer-vs-ParseString", fmt.Sprintf("ParseFromLexer over the parser's own token stream = %s but ParseString = %s", clip(viaLexer.desc(), 500), clip(pivot.desc(), 500)))
	}
	// clause 1b: standard-library readers that were partly consumed before being handed in
	if simrt.Choose(3) == 1 {
		const skipped = "#!skip: 12 bytes the caller consumed\n"
		kind := simrt.Choose(6)
		var rd io.Reader
		kindName := ""
		switch kind {
		case 0:
			sr := strings.NewReader(skipped + d)
			io.CopyN(io.Discard, sr, int64(len(skipped)))
			rd, kindName = sr, "*strings.Reader at a non-zero offset"
		case 1:
			br := bytes.NewReader([]byte(skipped + d))
			io.CopyN(io.Discard, br, int64(len(skipped)))
			rd, kindName = br, "*bytes.Reader at a non-zero offset"
		case 2:
			bb := bytes.NewBufferString(skipped + d)
			bb.Next(len(skipped))
			rd, kindName = bb, "*bytes.Buffer after Next"
		case 3:
			bf := bufio.NewReaderSize(strings.NewReader(skipped+d), 16)
			bf.Discard(len(skipped))
			rd, kindName = bf, "*bufio.Reader after Discard"
		case 4:
			rd, kindName = io.NewSectionReader(strings.NewReader(skipped+d+"<<tail outside the section>>"), int64(len(skipped)), int64(len(d))), "*io.SectionReader"
		case 5:
			rd, kindName = io.LimitReader(strings.NewReader(d+"<<tail beyond the limit>>"), int64(len(d))), "io.LimitReader"
		}
		viaStd := call(func() (interface{}, error) { return p.Parse(name, rd) })
		if !sameResult(pivot, viaStd) {
			return viol("Parse-std-reader-vs-ParseString", fmt.Sprintf("Parse over a %s holding exactly the input = %s but ParseString = %s", kindName, clip(viaStd.desc(), 500), clip(pivot.desc(), 500)))
		}
		rc.fault("positioned-std-reader")
	}
	if o.narrow {
		rc.probe("slow path forced (definition hides LexString/LexBytes)")
	}
	if pivot.Err != nil {
		rc.probe("error position compared across entry points")
	}

	// clause 2: filename inferred from the reader
	if simrt.Choose(3) == 1 {
		r3 := namedSimReader{newSimReader(rc, d, ends, readerOpts{}), "named.src"}
		inferred := call(func() (interface{}, error) { return p.Parse("", r3) })
		r3.account(rc)
		want := call(func() (interface{}, error) { return p.ParseString("named.src", d) })
		if !sameResult(want, inferred) {
			return viol("Parse-name-of-reader", fmt.Sprintf("Parse(\"\", reader named named.src) = %s but ParseString(\"named.src\") = %s", clip(inferred.desc(), 500), clip(want.desc(), 500)))
		}
		rc.fault("named")
		// an explicit filename wins over the reader's own name
		r3b := namedSimReader{newSimReader(rc, d, ends, readerOpts{}), "named.src"}
		explicit := call(func() (interface{}, error) { return p.Parse(name, r3b) })
		r3b.account(rc)
		if !sameResult(pivot, explicit) {
			return viol("Parse-explicit-filename-vs-reader-name", fmt.Sprintf("Parse(%q, reader named named.src) = %s but ParseString(%q) = %s", name, clip(explicit.desc(), 500), name, clip(pivot.desc(), 500)))
		}
		r3c := namedSimReader{newSimReader(rc, d, ends, readerOpts{}), "named.src"}
		lexNamed := lexCall(func() ([]lexer.Token, error) { return p.Lex(name, r3c) })
		if !sameResult(lexed, lexNamed) {
			return viol("Parser.Lex-explicit-filename-vs-reader-name", fmt.Sprintf("Parser.Lex(%q, reader named named.src) = %s but over an unnamed reader = %s", name, clip(lexNamed.desc(), 400), clip(lexed.desc(), 400)))
		}
	}

	// clause 2b: an empty filename and a reader without a name
	if simrt.Choose(4) == 1 {
		r8 := newSimReader(rc, d, ends, readerOpts{})
		anon := call(func() (interface{}, error) { return p.Parse("", r8) })
		r8.account(rc)
		want := call(func() (interface{}, error) { return p.ParseString("", d) })
		if !sameResult(want, anon) {
			return viol("Parse-empty-filename", fmt.Sprintf("Parse(\"\", unnamed reader) = %s but ParseString(\"\") = %s", clip(anon.desc(), 500), clip(want.desc(), 500)))
		}
	}

	// clause 3: Parser.Lex
	r4 := newSimReader(rc, d, ends, readerOpts{})
	pl := lexCall(func() ([]lexer.Token, error) { return p.Lex(name, r4) })
	r4.account(rc)
	own := lexCall(func() ([]lexer.Token, error) {
		lx, err := p.Lexer().Lex(name, strings.NewReader(d))
		if err != nil {
			return nil, err
		}
		return lexer.ConsumeAll(lx)
	})
	if !sameResult(pl, own) {
		return viol("Parser.Lex-vs-definition", fmt.Sprintf("Parser.Lex = %s but ConsumeAll(Lexer().Lex) = %s", clip(pl.desc(), 400), clip(own.desc(), 400)))
	}
	if pivot.Panic == "" && pivot.Err == nil {
		if rt, ok := rootTokens(pivot.Val); ok {
			all, _ := pl.Val.([]lexer.Token)
			if len(rt) > len(all) || !reflect.DeepEqual(rt, all[:len(rt)]) {
				return viol("root-Tokens-not-a-prefix-of-Parser.Lex", fmt.Sprintf("root Tokens = [%s] but Parser.Lex = [%s]", clip(tokensDesc(rt), 400), clip(tokensDesc(all), 400)))
			}
			el := map[lexer.TokenType]bool{}
			for _, e := range p.Elided() {
				el[e] = true
			}
			for _, t := range all[len(rt):] {
				if !t.EOF() && !el[t.Type] {
					return viol("root-Tokens-miss-consumed-token", fmt.Sprintf("token %s was consumed by a successful parse but is not in the root node's Tokens", t.GoString()))
				}
			}
		}
	}

	// clause 5: Trace changes nothing but the trace output (on a drawn entry point)
	if simrt.Choose(2) == 1 {
		sw := newSimWriter()
		entry := simrt.Choose(4)
		var r6 *SimReader
		traced := call(func() (interface{}, error) {
			switch entry {
			case 1:
				return p.ParseBytes(name, []byte(d), participle.Trace(sw))
			case 2:
				r6 = newSimReader(rc, d, ends, readerOpts{})
				return p.Parse(name, r6, participle.Trace(sw))
			case 3:
				lx, err := p.Lexer().Lex(name, strings.NewReader(d))
				if err != nil {
					return nil, err
				}
				pl, err := lexer.Upgrade(lx, p.Elided()...)
				if err != nil {
					return nil, err
				}
				return p.ParseFromLexer(pl, participle.Trace(sw))
			}
			return p.ParseString(name, d, participle.Trace(sw))
		})
		if r6 != nil {
			r6.account(rc)
		}
		if !sameResult(pivot, traced) {
			return viol("Trace-changes-result", fmt.Sprintf("with Trace (entry point %d, writer mode %d, fails after %d bytes) = %s but without = %s", entry, sw.mode, sw.k, clip(traced.desc(), 500), clip(pivot.desc(), 500)))
		}
		switch {
		case sw.failed:
			rc.fault("trace-write-error")
			rc.probe("trace writer failed mid-parse")
		case sw.shorted:
			rc.fault("trace-short-write")
		default:
			if sw.accepted > 0 {
				rc.probe("trace output produced")
			}
			// the trace is the same text whichever entry point produced it
			ref := &SimWriter{}
			call(func() (interface{}, error) { return p.ParseString(name, d, participle.Trace(ref)) })
			if ref.total < 1<<16 && sw.total < 1<<16 && ref.buf.String() != sw.buf.String() {
				return viol("Trace-output-differs-between-entry-points", fmt.Sprintf("entry point %d wrote %d bytes of trace, ParseString wrote %d bytes, and the texts differ", entry, sw.total, ref.total))
			}
		}
	}

	// clause 6: AllowTrailing leaves the caller's lexer at the first unconsumed token
	if w.junk != "" && dc.valid && len(fired) == 0 && simrt.Choose(3) == 1 {
		if v := entryTrailing(rc, w, p, x, viol); v != nil {
			return v
		}
	}
	if w.stmtBuild != nil && len(dc.stmts) > 0 && simrt.Choose(3) == 1 {
		if v := entryResume(rc, w, o, dc, viol); v != nil {
			return v
		}
	}

	// clause 7 (separate sub-batch): a failing reader
	if subBatch != "faultfree" && simrt.Choose(3) == 1 {
		r5 := newSimReader(rc, d, ends, readerOpts{allowError: true})
		if r5.errAfter < 0 {
			r5.errAfter = simrt.Choose(len(d) + 1)
		}
		got := call(func() (interface{}, error) { return p.Parse(name, r5) })
		r5.account(rc)
		if got.Panic != "" {
			return viol("read-error-panic", "Parse over a failing reader panicked: "+got.Panic)
		}
		if got.Err == nil {
			prefix := r5.delivered()
			want := call(func() (interface{}, error) { return p.ParseString(name, prefix) })
			if !sameResult(want, got) {
				return viol("read-error-wrong-result", fmt.Sprintf("reader failed after %d bytes; Parse returned %s, which is neither an error nor the result for the delivered prefix (%s)", len(prefix), clip(got.desc(), 400), clip(want.desc(), 400)))
			}
			rc.probe("read error swallowed: result equals that of the delivered prefix")
		}
		// whatever the failed read left behind must not leak into the next call
		again := call(func() (interface{}, error) { return p.Parse(name, strings.NewReader(d)) })
		if !sameResult(pivot, again) {
			return viol("call-after-failed-read", fmt.Sprintf("after a Parse whose reader failed, Parse over the whole input = %s but ParseString = %s", clip(again.desc(), 500), clip(pivot.desc(), 500)))
		}
	}

	outcome := "ast"
	switch {
	case pivot.Panic != "":
		outcome = "panic"
	case pivot.Err != nil && isNil(pivot.Val):
		outcome = "lex-error"
	case pivot.Err != nil:
		outcome = "parse-error"
	}
	rc.agg.Outcomes[outcome]++
	insideToken := false
	prev := 0
	for _, e := range ends {
		for _, b := range r.bounds {
			if b > prev && b < e {
				insideToken = true
			}
		}
		prev = e
	}
	rc.nontriv = r.reads >= 2 && insideToken
	sort.Strings(fired)
	rc.keyAdd(w.name, variant, r.shape, outcome, dc.name, strings.Join(fired, ","), d)
	rc.note("kind", "parser entry points")
	rc.note("world", w.name)
	rc.note("variant", variant)
	rc.note("doc", dc.name)
	rc.note("delivered", clip(d, 160))
	rc.note("faults", fired)
	rc.note("schedule", fmt.Sprintf("%s reads=%d eof-with-data=%v", r.shape, r.reads, r.eofWithData))
	rc.note("outcome", outcome)
	return nil
}

func entryTrailing(rc *RunCtx, w *world, p PH, x string, viol func(string, string) *Violation) *Violation {
	full := x + w.junk
	// without the option, before anything else happened on this parser
	strictBefore := call(func() (interface{}, error) { return p.ParseString("file.txt", full) })
	// the caller keeps its option lists in one small array, as programs that assemble them do: the
	// empty list and the list with AllowTrailing share it
	var optBuf [4]participle.ParseOption
	none := optBuf[:0]
	opts := append(none, participle.AllowTrailing(true))
	traced := simrt.Choose(2) == 1
	if traced {
		opts = append(opts, participle.Trace(newSimWriter()))
		rc.probe("AllowTrailing together with Trace")
	}
	var peek lexer.Token
	res := call(func() (interface{}, error) {
		lx, err := p.Lexer().Lex("file.txt", strings.NewReader(full))
		if err != nil {
			return nil, err
		}
		pl, err := lexer.Upgrade(lx, p.Elided()...)
		if err != nil {
			return nil, err
		}
		ast, err := p.ParseFromLexer(pl, opts...)
		peek = *pl.Peek()
		return ast, err
	})
	// the option means the same through every entry point
	viaString := call(func() (interface{}, error) { return p.ParseString("file.txt", full, opts...) })
	viaBytes := call(func() (interface{}, error) { return p.ParseBytes("file.txt", []byte(full), opts...) })
	viaReader := call(func() (interface{}, error) { return p.Parse("file.txt", strings.NewReader(full), opts...) })
	if !sameResult(viaString, viaBytes) {
		return viol("AllowTrailing-ParseBytes-vs-ParseString", fmt.Sprintf("with AllowTrailing(true) over X+%q ParseBytes = %s but ParseString = %s", w.junk, clip(viaBytes.desc(), 400), clip(viaString.desc(), 400)))
	}
	if !sameResult(viaString, viaReader) {
		return viol("AllowTrailing-Parse-vs-ParseString", fmt.Sprintf("with AllowTrailing(true) over X+%q Parse = %s but ParseString = %s", w.junk, clip(viaReader.desc(), 400), clip(viaString.desc(), 400)))
	}
	if !sameResult(viaString, res) {
		return viol("AllowTrailing-ParseFromLexer-vs-ParseString", fmt.Sprintf("with AllowTrailing(true) over X+%q ParseFromLexer = %s but ParseString = %s", w.junk, clip(res.desc(), 400), clip(viaString.desc(), 400)))
	}
	// an option belongs to the call it was given to: afterwards a call without it (through a
	// drawn entry point, handed the caller's empty option list) gives what it gave before, and the
	// caller's option list still means what it meant
	var strictAfter callResult
	switch simrt.Choose(3) {
	case 0:
		strictAfter = call(func() (interface{}, error) { return p.ParseString("file.txt", full, none...) })
	case 1:
		strictAfter = call(func() (interface{}, error) { return p.ParseBytes("file.txt", []byte(full), none...) })
	default:
		strictAfter = call(func() (interface{}, error) { return p.Parse("file.txt", strings.NewReader(full), none...) })
	}
	if !sameResult(strictBefore, strictAfter) {
		return viol("option-outlives-its-call", fmt.Sprintf("over X+%q a call without options returned %s before any call with AllowTrailing(true) and %s after one", w.junk, clip(strictBefore.desc(), 400), clip(strictAfter.desc(), 400)))
	}
	if !traced {
		viaString2 := call(func() (interface{}, error) { return p.ParseString("file.txt", full, opts...) })
		if !sameResult(viaString, viaString2) {
			return viol("callers-option-list-changed", fmt.Sprintf("over X+%q ParseString with the caller's option list [AllowTrailing(true)] returned %s, and after a call that was handed the caller's empty list (same backing array) it returned %s", w.junk, clip(viaString.desc(), 400), clip(viaString2.desc(), 400)))
		}
	}
	if res.Panic != "" || res.Err != nil {
		// whether X+junk parses is C01's business; only the cursor position is asserted here
		rc.probe("AllowTrailing parse of X+junk failed (not judged)")
		return nil
	}
	rc.probe("AllowTrailing: caller's lexer position checked")
	wantOff := len(x) + strings.Index(w.junk, strings.TrimSpace(w.junk))
	first := strings.Fields(w.junk)[0]
	if peek.EOF() || peek.Pos.Offset != wantOff || !strings.HasPrefix(peek.Value, first[:1]) {
		return viol("AllowTrailing-cursor", fmt.Sprintf("after ParseFromLexer(AllowTrailing, trace=%v) over X+%q the caller's lexer peeks %s, want the first junk token at offset %d", traced, w.junk, peek.GoString(), wantOff))
	}
	return nil
}

// entryResume: a one-statement grammar applied repeatedly to one lexer yields the statements that
// separate ParseString calls yield (positions aside).
func entryResume(rc *RunCtx, w *world, o buildOpts, dc *doc, viol func(string, string) *Violation) *Violation {
	var sp PH
	if pn := catch(func() { sp = w.stmtBuild(o) }); pn != "" {
		return viol("build-panic", pn)
	}
	text := strings.Join(dc.stmts, "\n")
	opts := []participle.ParseOption{participle.AllowTrailing(true)}
	if simrt.Choose(2) == 1 {
		opts = append(opts, participle.Trace(newSimWriter()))
	}
	var got []string
	res := call(func() (interface{}, error) {
		lx, err := sp.Lexer().Lex("file.txt", strings.NewReader(text))
		if err != nil {
			return nil, err
		}
		pl, err := lexer.Upgrade(lx, sp.Elided()...)
		if err != nil {
			return nil, err
		}
		for i := 0; i < len(dc.stmts); i++ {
			ast, err := sp.ParseFromLexer(pl, opts...)
			if err != nil {
				return nil, fmt.Errorf("statement %d: %w", i, err)
			}
			got = append(got, renderNoPos(ast))
		}
		if !pl.Peek().EOF() {
			return nil, fmt.Errorf("lexer not at EOF after %d statements: %s", len(dc.stmts), pl.Peek().GoString())
		}
		if dc.stmtsRawEOF && !pl.RawPeek().EOF() {
			return nil, fmt.Errorf("the last statement consumed the trailing elided tokens explicitly, yet the caller's lexer still has %s as its next raw token", pl.RawPeek().GoString())
		}
		return nil, nil
	})
	if res.Panic != "" || res.Err != nil {
		return viol("resumption", fmt.Sprintf("repeated ParseFromLexer(AllowTrailing) over %q failed: %s", text, res.desc()))
	}
	for i, s := range dc.stmts {
		one := call(func() (interface{}, error) { return sp.ParseString("file.txt", s) })
		if one.Err != nil || one.Panic != "" {
			return nil // fixture problem, not judged
		}
		if want := renderNoPos(one.Val); want != got[i] {
			return viol("resumption", fmt.Sprintf("statement %d parsed from the shared lexer = %s, parsed alone = %s", i, clip(got[i], 400), clip(want, 400)))
		}
	}
	rc.probe("resumption over a k-statement document")
	return nil
}

var posType = reflect.TypeOf(lexer.Position{})
var toksType = reflect.TypeOf([]lexer.Token{})

// renderNoPos renders an AST without positions and token slices.
func renderNoPos(v interface{}) string { return render(v, false) }

// render renders a value deterministically (no addresses), following pointers.
func render(v interface{}, withPos bool) string {
	var b strings.Builder
	var walk func(rv reflect.Value, depth int)
	walk = func(rv reflect.Value, depth int) {
		if depth > 2000 {
			b.WriteString("<deep>")
			return
		}
		switch rv.Kind() {
		case reflect.Invalid:
			b.WriteString("nil")
		case reflect.Ptr, reflect.Interface:
			if rv.IsNil() {
				b.WriteString("nil")
				return
			}
			if rv.Kind() == reflect.Interface {
				b.WriteString("(" + rv.Elem().Type().String() + ")")
			} else {
				b.WriteString("&")
			}
			walk(rv.Elem(), depth+1)
		case reflect.Struct:
			b.WriteString(rv.Type().Name() + "{")
			for i := 0; i < rv.NumField(); i++ {
				f := rv.Field(i)
				if !withPos && (f.Type() == posType || f.Type() == toksType) {
					continue
				}
				b.WriteString(rv.Type().Field(i).Name + ":")
				walk(f, depth+1)
				b.WriteString(" ")
			}
			b.WriteString("}")
		case reflect.Slice, reflect.Array:
			if rv.Kind() == reflect.Slice && rv.IsNil() {
				b.WriteString("nil[]")
				return
			}
			b.WriteString("[")
			for i := 0; i < rv.Len(); i++ {
				walk(rv.Index(i), depth+1)
				b.WriteString(",")
			}
			b.WriteString("]")
		case reflect.Map:
			fmt.Fprintf(&b, "map(len %d)", rv.Len())
		case reflect.String:
			fmt.Fprintf(&b, "%q", rv.String())
		case reflect.Bool:
			fmt.Fprintf(&b, "%v", rv.Bool())
		case reflect.Int, reflect.Int8, reflect.Int16, reflect.Int32, reflect.Int64:
			fmt.Fprintf(&b, "%d", rv.Int())
		case reflect.Uint, reflect.Uint8, reflect.Uint16, reflect.Uint32, reflect.Uint64:
			fmt.Fprintf(&b, "%d", rv.Uint())
		case reflect.Float32, reflect.Float64:
			fmt.Fprintf(&b, "%v", rv.Float())
		default:
			b.WriteString("<" + rv.Kind().String() + ">")
		}
	}
	walk(reflect.ValueOf(v), 0)
	return b.String()
}
