package main

import (
	"fmt"
	"sort"
	"strings"
	"unicode/utf8"

	"github.com/alecthomas/participle/v2/lexer"
	"github.com/alecthomas/participle/v2/simrt"
)

// C07 — lexer totality under stream faults and call histories.

func init() { register(&profile{id: "C07", num: 7, name: "robust-lex", run: runRobustLex}) }

type lexSession struct {
	tag      string
	d        string
	lx       lexer.Lexer
	tokens   int
	state    int // 0 running, 1 EOF seen, 2 error seen
	eofPos   lexer.Position
	post     int // calls made after the terminal event
	wantPost int
	lastErr  string
	calls    int
	maxSteps int64
	rd       *SimReader // non-nil when the input arrives through a failing reader
}

// delivered returns the bytes the lexer can have seen so far: the whole input, or, behind a
// reader that fails, what the reader has handed out (text/scanner reads while tokens are pulled).
func (s *lexSession) delivered() string {
	if s.rd != nil {
		return s.rd.delivered()
	}
	return s.d
}

func (s *lexSession) done() bool { return s.state != 0 && s.post >= s.wantPost }

// hotOffsets lexes x with the definition under test to learn token boundaries (only a bias for
// fault placement).  It runs under its own step cap: a definition that does not terminate must be
// reported by the clauses, not hang the planning.
func hotOffsets(def lexer.Definition, x string) (ends []int) {
	simrt.RunInline(func() {
		simrt.OpBegin(int64(200000 + 2000*len(x)))
		defer simrt.OpEnd(0)
		ends = hotOffsetsUnguarded(def, x)
	})
	return ends
}

func hotOffsetsUnguarded(def lexer.Definition, x string) (ends []int) {
	defer func() { recover() }()
	var lx lexer.Lexer
	var err error
	if sd, ok := def.(lexer.StringDefinition); ok {
		lx, err = sd.LexString("", x)
	} else {
		lx, err = def.Lex("", strings.NewReader(x))
	}
	if err != nil {
		return nil
	}
	for i := 0; i <= len(x); i++ {
		t, err := lx.Next()
		if err != nil || t.EOF() {
			break
		}
		ends = append(ends, t.Pos.Offset+len(t.Value))
		// also just inside the token
		if len(t.Value) > 1 {
			ends = append(ends, t.Pos.Offset+1)
		}
	}
	sort.Ints(ends)
	return ends
}

func runRobustLex(rc *RunCtx) *Violation {
	ld := lexDefs[simrt.Choose(len(lexDefs))]
	useGen := false
	var def lexer.Definition
	if ld.genName != "" && generatedDefs[ld.genName] != nil && simrt.Choose(2) == 1 {
		def = generatedDefs[ld.genName]
		useGen = true
		rc.probe("generated lexer (built at check time)")
	} else {
		// map iteration orders inside the constructor are part of the explored space
		simrt.ShuffleMaps = true
		p := catch(func() { def = ld.build() })
		simrt.ShuffleMaps = false
		if p != "" {
			return &Violation{Signature: "lex/" + ld.name + "/build-panic", Detail: p}
		}
	}
	defName := ld.name
	if useGen {
		defName += "(generated)"
	}
	rc.agg.Worlds[defName]++
	if tmpl, ok := churnTemplates[ld.name]; ok && !useGen && simrt.Choose(40) == 1 {
		return lexChurn(rc, def, defName, tmpl)
	}
	delims := runDelims(rc.seed)
	maxSessions := 1
	if simrt.Choose(4) == 1 {
		maxSessions = 2 + simrt.Choose(bound(3, 6))
		rc.probe("several lexers of one definition, opened at different times and alternated")
	}
	var sessions []*lexSession
	var faultKinds []string
	// openSession creates one more lexer over the shared definition, at any point of the history
	// (also after other lexers reached EOF or failed).
	openSession := func() *Violation {
		i := len(sessions)
		x := ld.corpus[simrt.Choose(len(ld.corpus))]
		if ld.delims {
			x = instantiate(x, delims)
		}
		d := x
		if subBatch != "faultfree" {
			var fired []string
			d, fired = deriveInput(rc, x, hotOffsets(def, x), allContentFaults)
			faultKinds = append(faultKinds, fired...)
		}
		if len(x) > 0 && simrt.Choose(bound(60, 25)) == 1 && !ld.noHuge {
			// an input larger than any internal buffer, with one very long run across a power-of-two offset
			target := []int{40000, 70000, 140000}[simrt.Choose(3)]
			big := strings.Repeat(x+"\n", 1+target/(len(x)+1))
			seam := []int{32768, 65536, 131072}[simrt.Choose(3)]
			if seam < len(big)-16 {
				run := 4200 + simrt.Choose(5000)
				at := seam - simrt.Choose(run)
				for at > 0 && !utf8.RuneStart(big[at]) {
					at--
				}
				big = big[:at] + strings.Repeat([]string{"a", "é", "7"}[simrt.Choose(3)], run) + big[at:]
			}
			d = big
			rc.fault("huge-input")
			faultKinds = append(faultKinds, "huge")
		}
		s := &lexSession{tag: fmt.Sprintf("%s#%d", defName, i), d: d, wantPost: simrt.Choose(6)}
		viol := func(clause, detail string) *Violation {
			return &Violation{Signature: "lex/" + defName + "/" + clause, Detail: fmt.Sprintf("%s; definition=%s input=%s", detail, defName, quoteClip(d, 200)), Input: d}
		}
		entry := simrt.Choose(3)
		var err error
		p := catch(func() {
			switch {
			case entry == 1:
				if sd, ok := def.(lexer.StringDefinition); ok {
					s.lx, err = sd.LexString("f.txt", d)
					rc.keyAdd("LexString")
					return
				}
				fallthrough
			case entry == 2:
				if bd, ok := def.(lexer.BytesDefinition); ok {
					s.lx, err = bd.LexBytes("f.txt", []byte(d))
					rc.keyAdd("LexBytes")
					return
				}
				fallthrough
			default:
				r := newSimReader(rc, d, nil, readerOpts{allowError: subBatch != "faultfree" && simrt.Choose(8) == 1})
				s.lx, err = def.Lex("f.txt", r)
				r.account(rc)
				if r.errAfter >= 0 {
					// what was delivered is what the lexer can know about
					s.rd = r
					faultKinds = append(faultKinds, "read-error")
				}
				rc.keyAdd("Lex")
			}
		})
		if p != "" {
			return viol("Lex-panic", "creating the lexer panicked: "+p)
		}
		if err != nil {
			rc.agg.Outcomes["lex-constructor-error"]++
			s.state = 2
			s.wantPost = 0
		}
		sessions = append(sessions, s)
		return nil
	}

	var result *Violation
	simrt.RunInline(func() {
		for {
			var live []*lexSession
			for _, s := range sessions {
				if !s.done() && s.lx != nil {
					live = append(live, s)
				}
			}
			canOpen := len(sessions) < maxSessions
			if len(live) == 0 && !canOpen {
				return
			}
			if canOpen && (len(live) == 0 || simrt.Choose(4) == 1) {
				if len(sessions) > 0 {
					for _, o := range sessions {
						if o.state == 1 && o.post > 0 {
							rc.probe("lexer opened after another lexer of the definition was called past EOF")
							break
						}
					}
				}
				if v := openSession(); v != nil {
					result = v
					return
				}
				continue
			}
			s := live[simrt.Choose(len(live))]
			d := s.d
			if s.rd != nil {
				d = s.d[:min(len(s.d), s.rd.errAfter)]
			}
			viol := func(clause, detail string) *Violation {
				return &Violation{Signature: "lex/" + defName + "/" + clause, Detail: fmt.Sprintf("%s; definition=%s input=%s after %d calls", detail, defName, quoteClip(d, 200), s.calls), Input: d}
			}
			stepCap := int64(10000 + 100*len(d))
			var tok lexer.Token
			var err error
			base := simrt.Depth()
			simrt.OpBegin(stepCap)
			p := catch(func() { tok, err = s.lx.Next() })
			steps, depth, capHit := simrt.OpEnd(base)
			s.calls++
			if int64(depth) > rc.agg.MaxDepth {
				rc.agg.MaxDepth = int64(depth)
			}
			if depth > 150 && result == nil {
				// one Next call works through any number of ignored tokens and Return() hops; its
				// logical recursion depth must not grow with them (a real stack overflow is fatal)
				result = viol("recursion", fmt.Sprintf("a single Next call reached a logical recursion depth of %d frames", depth))
				return
			}
			rc.agg.SimSteps += steps
			if steps > rc.agg.MaxOpSteps {
				rc.agg.MaxOpSteps = steps
			}
			if r := float64(steps) / float64(stepCap); r > rc.agg.MaxCapRatio {
				rc.agg.MaxCapRatio = r
			}
			if capHit {
				result = viol("nontermination", fmt.Sprintf("Next did not return within %d logical steps", stepCap))
				return
			}
			if p != "" {
				result = viol("panic:"+sigNorm(p), "Next panicked: "+p)
				return
			}
			switch s.state {
			case 0:
				switch {
				case err != nil:
					s.state = 2
					s.lastErr = err.Error()
					rc.agg.Outcomes["error"]++
					if strings.Contains(s.lastErr, "invalid backref expansion") {
						rc.probe("invalid back-reference expansion reported as error")
					}
				case tok.EOF():
					s.state = 1
					s.eofPos = tok.Pos
					rc.agg.Outcomes["eof"]++
				default:
					if tok.Value == "" {
						result = viol("empty-token", fmt.Sprintf("Next returned an empty non-EOF token of type %d at %v", tok.Type, tok.Pos))
						return
					}
					s.tokens++
					if got := len(s.delivered()); s.tokens > got {
						result = viol("no-progress", fmt.Sprintf("%d non-EOF tokens emitted for %d bytes of input", s.tokens, got))
						return
					}
				}
			case 1:
				s.post++
				rc.probe("EOF then Next")
				if err != nil {
					result = viol("after-eof", fmt.Sprintf("call %d after EOF returned error %v", s.post, err))
					return
				}
				if !tok.EOF() {
					result = viol("after-eof", fmt.Sprintf("call %d after EOF returned non-EOF token %v", s.post, tok.GoString()))
					return
				}
				if tok.Pos != s.eofPos {
					result = viol("after-eof-position", fmt.Sprintf("call %d after EOF returned EOF at %v, first EOF was at %v", s.post, tok.Pos.GoString(), s.eofPos.GoString()))
					return
				}
			case 2:
				s.post++
				rc.probe("error then Next")
				// nothing but termination and absence of panics is promised after an error
			}
		}
	})
	if result != nil {
		return result
	}
	sort.Strings(faultKinds)
	term := ""
	emitted := 0
	for _, s := range sessions {
		term += fmt.Sprintf("%d/%d;", s.state, s.post)
		emitted += s.tokens
		simrt.HashEvent(hashString(fmt.Sprintf("%d|%d|%d|%s", s.state, s.tokens, s.post, s.lastErr)))
	}
	rc.nontriv = emitted > 0 && (len(faultKinds) > 0 || sessions[0].state == 2 || len(sessions) >= 2)
	rc.keyAdd(defName, term, strings.Join(faultKinds, ","))
	for _, s := range sessions {
		rc.keyAdd(s.delivered())
	}
	rc.note("definition", defName)
	rc.note("delivered", clip(sessions[0].delivered(), 160))
	rc.note("faults", faultKinds)
	rc.note("terminal(state/post-calls)", term)
	rc.note("tokens", emitted)
	return nil
}

// churnTemplates: documents with two placeholders for definitions that cache per-input state
// (compiled back-reference expansions keyed by captured text).
var churnTemplates = map[string]string{
	"heredoc":            "<<{A} x {B} y {A}\n",
	"optgroup":           "a <<-{A} {B} {A} b",
	"convoluted-backref": "<{A}|{B}> w {A} x {B} y",
	"badbackref":         "a <<{A} {B} {A}",
}

// lexChurn reuses ONE definition over a long history of short inputs with pairwise distinct
// captured texts (hundreds of distinct cache keys), the way a long-lived process does.
func lexChurn(rc *RunCtx, def lexer.Definition, defName, tmpl string) *Violation {
	n := 100 + simrt.Choose(bound(500, 1500))
	rc.probe("long history on one definition (hundreds of distinct back-reference expansions)")
	var result *Violation
	simrt.RunInline(func() {
		for i := 0; i < n && result == nil; i++ {
			d := strings.ReplaceAll(strings.ReplaceAll(tmpl, "{A}", fmt.Sprintf("K%dx", i)), "{B}", fmt.Sprintf("v%d", i*7))
			viol := func(clause, detail string) *Violation {
				return &Violation{Signature: "lex/" + defName + "/" + clause, Detail: fmt.Sprintf("%s; definition=%s, input number %d of a long history on one definition, input=%s", detail, defName, i+1, quoteClip(d, 120)), Input: d}
			}
			var lx lexer.Lexer
			var err error
			if p := catch(func() { lx, err = def.Lex("churn.txt", strings.NewReader(d)) }); p != "" {
				result = viol("panic:"+sigNorm(p), "Lex panicked: "+p)
				return
			}
			if err != nil {
				continue
			}
			for k := 0; k <= len(d)+1; k++ {
				var tok lexer.Token
				base := simrt.Depth()
				simrt.OpBegin(int64(10000 + 100*len(d)))
				p := catch(func() { tok, err = lx.Next() })
				steps, _, capHit := simrt.OpEnd(base)
				rc.agg.SimSteps += steps
				if capHit {
					result = viol("nontermination", "Next did not return within its logical step cap")
					return
				}
				if p != "" {
					result = viol("panic:"+sigNorm(p), "Next panicked: "+p)
					return
				}
				if err != nil || tok.EOF() {
					break
				}
				if tok.Value == "" {
					result = viol("empty-token", "Next returned an empty non-EOF token")
					return
				}
				if k == len(d) {
					result = viol("no-progress", "more tokens than input bytes")
					return
				}
			}
		}
	})
	rc.nontriv = true
	rc.keyAdd("churn", defName, fmt.Sprint(n))
	rc.note("kind", "long history on one definition")
	rc.note("definition", defName)
	rc.note("inputs", n)
	return result
}
