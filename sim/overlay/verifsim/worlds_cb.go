package main

import (
	"errors"
	"fmt"
	"strconv"
	"strings"
	"text/scanner"

	"github.com/alecthomas/participle/v2"
	"github.com/alecthomas/participle/v2/lexer"
	"github.com/alecthomas/participle/v2/simrt"
)

// W-callbacks: a grammar whose productions call back into user code: a Parseable, a
// ParseTypeWith function, a Capture, a TextUnmarshaler and a Map mapper.  By default the
// callbacks are pure and deterministic.  Under the C06 profile (single task) cbPlan makes the
// j-th callback invocation of a parse return a tape-chosen outcome.

const (
	cbOK = iota
	cbNextMatch
	cbForeign
	cbLocated
)

type cbPlanT struct {
	outcomes []int
	n        int
	foreign  bool // a foreign error was actually returned
	located  bool
	nomatch  bool
}

// cbPlan is nil whenever more than one task exists (it is only read then).
var cbPlan *cbPlanT

var errForeign = errors.New("sim: foreign callback error")

// cbOutcome returns the planned outcome of this callback invocation.  Callbacks that have no
// token position at hand (Capture, UnmarshalText) cannot return a located error of their own;
// for them a planned "located" outcome becomes a foreign error.
func cbOutcome(canLocate ...bool) int {
	simrt.YieldPoint(simrt.SiteCallback)
	p := cbPlan
	if p == nil {
		return cbOK
	}
	i := p.n
	p.n++
	if i < len(p.outcomes) {
		if p.outcomes[i] == cbLocated && len(canLocate) > 0 && !canLocate[0] {
			p.outcomes[i] = cbForeign
		}
		switch p.outcomes[i] {
		case cbForeign:
			p.foreign = true
		case cbLocated:
			p.located = true
		case cbNextMatch:
			p.nomatch = true
		}
		return p.outcomes[i]
	}
	return cbOK
}

type cbFile struct {
	Pos    lexer.Position
	Items  []*cbItem `@@*`
	EndPos lexer.Position
	Tokens []lexer.Token
}

type cbItem struct {
	Pos   lexer.Position
	Dur   *cbDuration `(   "dur" @@`
	Shape cbShape     `  | "shape" @@`
	Flags cbFlags     `  | "flags" @Ident+`
	Addr  *cbAddr     `  | "addr" @String`
	Opt   *cbDuration `  | "opt" @@? "!"`
	Tpl   *cbTemplate `  | "tpl" @String`
	Seq   *cbSeq      `  | "seq" @@`
	Words []string    `  | "seq" @Ident+ "?" ) ";"`
}

// cbSeq is a Parseable that fills its receiver while it goes and gives up with NextMatch when the
// list does not end in "." (a later alternative then takes over).
type cbSeq struct {
	Items []string
}

func (q *cbSeq) Parse(lex *lexer.PeekingLexer) error {
	switch cbOutcome() {
	case cbNextMatch:
		return participle.NextMatch
	case cbForeign:
		return errForeign
	case cbLocated:
		return participle.Errorf(lex.Peek().Pos, "sim: located callback error")
	}
	start := lex.MakeCheckpoint()
	for lex.Peek().Type == scanner.Ident {
		q.Items = append(q.Items, lex.Next().Value)
	}
	if t := lex.Peek(); t.Value != "." {
		// not ours: put the lexer back (the receiver keeps what was collected so far — it is
		// thrown away by the library)
		lex.LoadCheckpoint(start)
		return participle.NextMatch
	}
	lex.Next()
	return nil
}

// Parseable
type cbDuration struct {
	N    int
	Unit string
}

func (d *cbDuration) Parse(lex *lexer.PeekingLexer) error {
	switch cbOutcome() {
	case cbNextMatch:
		return participle.NextMatch
	case cbForeign:
		return errForeign
	case cbLocated:
		return participle.Errorf(lex.Peek().Pos, "sim: located callback error")
	}
	t := lex.Peek()
	if t.Type != scanner.Int {
		return participle.NextMatch
	}
	n, err := strconv.Atoi(t.Value)
	if err != nil {
		return participle.Errorf(t.Pos, "bad duration %q", t.Value)
	}
	lex.Next()
	d.N = n
	if u := lex.Peek(); u.Type == scanner.Ident && (u.Value == "s" || u.Value == "ms" || u.Value == "h") {
		d.Unit = u.Value
		lex.Next()
	}
	return nil
}

// ParseTypeWith
type cbShape interface{ shape() }
type cbCircle struct{ R int }
type cbRect struct{ W, H int }

func (cbCircle) shape() {}
func (cbRect) shape()   {}

func parseShape(lex *lexer.PeekingLexer) (cbShape, error) {
	switch cbOutcome() {
	case cbNextMatch:
		return nil, participle.NextMatch
	case cbForeign:
		return nil, errForeign
	case cbLocated:
		return nil, participle.Errorf(lex.Peek().Pos, "sim: located callback error")
	}
	t := lex.Peek()
	if t.Type != scanner.Ident {
		return nil, participle.NextMatch
	}
	num := func() (int, error) {
		n := lex.Peek()
		if n.Type != scanner.Int {
			return 0, participle.Errorf(n.Pos, "expected a number, got %q", n.Value)
		}
		v, err := strconv.Atoi(n.Value)
		if err != nil {
			return 0, participle.Errorf(n.Pos, "bad number %q", n.Value)
		}
		lex.Next()
		return v, nil
	}
	switch t.Value {
	case "circle":
		lex.Next()
		r, err := num()
		if err != nil {
			return nil, err
		}
		return cbCircle{r}, nil
	case "hexagon":
		// a plain Go error from user code (not a participle.Error): the library passes it through
		return nil, fmt.Errorf("sim: shape %q is not supported", t.Value)
	case "rect":
		lex.Next()
		w, err := num()
		if err != nil {
			return nil, err
		}
		h, err := num()
		if err != nil {
			return nil, err
		}
		return cbRect{w, h}, nil
	}
	return nil, participle.NextMatch
}

// Capture
type cbFlags []string

func (f *cbFlags) Capture(values []string) error {
	switch cbOutcome(false) {
	case cbForeign:
		return errForeign
	}
	for _, v := range values {
		if v == "forbidden" {
			return fmt.Errorf("flag %q is forbidden", v)
		}
		*f = append(*f, strings.ToLower(v))
	}
	return nil
}

// parseShapeAlt is another ParseTypeWith function for the same type: everything twice as large.
func parseShapeAlt(lex *lexer.PeekingLexer) (cbShape, error) {
	sh, err := parseShape(lex)
	switch v := sh.(type) {
	case cbCircle:
		return cbCircle{2 * v.R}, err
	case cbRect:
		return cbRect{2 * v.W, 2 * v.H}, err
	}
	return sh, err
}

// cbTemplate is a Capture that re-enters participle: the captured string is itself parsed, with a
// parser of its own and with tracing on (the usual way interpolated strings are handled).
type cbTemplate struct{ Parts []string }

type cbTpl struct {
	Segs []*cbTplSeg `@@*`
}

type cbTplSeg struct {
	Name string `  "{" @Ident "}"`
	Text string `| @( Ident | Int )`
}

var cbTplParser = participle.MustBuild[cbTpl]()

func (t *cbTemplate) Capture(values []string) error {
	switch cbOutcome(false) {
	case cbForeign:
		return errForeign
	}
	for _, v := range values {
		inner, err := cbTplParser.ParseString("tpl", v, participle.Trace(discardSink{}))
		if err != nil {
			return fmt.Errorf("template %q: %v", v, err)
		}
		for _, sg := range inner.Segs {
			t.Parts = append(t.Parts, sg.Text+"|"+sg.Name)
		}
	}
	return nil
}

// TextUnmarshaler
type cbAddr struct {
	Host string
	Port int
}

func (a *cbAddr) UnmarshalText(b []byte) error {
	switch cbOutcome(false) {
	case cbForeign:
		return errForeign
	}
	s := string(b)
	i := strings.LastIndex(s, ":")
	if i < 0 {
		return fmt.Errorf("address %q has no port", s)
	}
	p, err := strconv.Atoi(s[i+1:])
	if err != nil {
		return fmt.Errorf("address %q has a bad port", s)
	}
	a.Host, a.Port = s[:i], p
	return nil
}

// W-durations: the root grammar type itself implements Parseable (Parser.rootParseable path).
var worldDurations = &world{
	name: "durations", lexerKind: "text/scanner", junk: " ! !", hasCallbacks: true,
	build: func(o buildOpts) PH {
		opts := applyCommon(o, nil, nil)
		return mustPH[cbDuration](nil, opts...)
	},
	stmtBuild: func(o buildOpts) PH {
		opts := applyCommon(o, nil, nil)
		return mustPH[cbDuration](nil, opts...)
	},
	docs: []doc{
		{name: "ms", valid: true, text: "15 ms", stmts: []string{"15 ms", "7 h", "3", "250 s"}},
		{name: "bare", valid: true, text: " 7\n", stmts: []string{"7", "8 ms"}},
		{name: "not-a-number", valid: false, text: "soon"},
		{name: "trailing", valid: false, text: "15 ms 3"},
		{name: "huge", valid: false, text: "99999999999999999999999 h"},
		{name: "empty", valid: false, text: ""},
	},
}

var worldCallbacks = &world{
	name: "callbacks", lexerKind: "text/scanner", junk: " ! !", hasCallbacks: true,
	build: func(o buildOpts) PH {
		opts := applyCommon(o, nil, nil)
		opts = append(opts, participle.Unquote("String"), participle.ParseTypeWith(parseShape),
			participle.Map(func(t lexer.Token) (lexer.Token, error) {
				switch cbOutcome() {
				case cbForeign:
					return t, errForeign
				case cbLocated:
					return t, participle.Errorf(t.Pos, "sim: located mapper error")
				}
				t.Value = strings.TrimPrefix(t.Value, "0")
				if t.Value == "" {
					t.Value = "0"
				}
				return t, nil
			}, "Int"))
		return mustPH[cbFile](nil, opts...)
	},
	altBuild: func(o buildOpts) PH {
		opts := applyCommon(o, nil, nil)
		opts = append(opts, participle.Unquote("String"), participle.ParseTypeWith(parseShapeAlt))
		return mustPH[cbFile](nil, opts...)
	},
	docs: []doc{
		{name: "all", valid: true, text: "dur 15 ms; shape circle 3; flags A b C; addr \"host.example:8080\"; opt 7 h !; opt !; shape rect 04 5;\n"},
		{name: "unicode", valid: true, text: "flags größe naïve; addr \"höst:1\"; dur 1;\n"},
		flatDoc("flat", "", "dur 1 s; ", ""),
		flatDoc("flat-flags", "flags a", " b", ";"),
		{name: "empty", valid: true, text: ""},
		{name: "bad-addr", valid: false, text: "addr \"noport\";"},
		{name: "forbidden", valid: false, text: "flags ok forbidden;"},
		{name: "bad-shape", valid: false, text: "shape rect 1 x;"},
		{name: "seqs", valid: true, text: "seq a b ?; seq c .; seq d e f ?; seq .; seq g h .;"},
		{name: "templates", valid: true, text: "tpl \"hi {name} and {other} 2\"; dur 1; tpl \"\"; tpl \"{x}\";"},
		{name: "bad-template", valid: false, text: "tpl \"hi {name\";"},
		{name: "plain-user-error", valid: false, foreignErr: true, text: "dur 1; shape hexagon 6; dur 2;"},
	},
}

// W-shapes: nothing but a custom production (ParseTypeWith), default lexer, no mappers; the
// second option set registers another function for the same type.
type shFile struct {
	Pos    lexer.Position
	Shapes []cbShape `( @@ ";" )*`
}

var worldShapes = &world{
	name: "shapes", lexerKind: "text/scanner", junk: " ! !", hasCallbacks: true,
	build: func(o buildOpts) PH {
		return mustPH[shFile](nil, append(applyCommon(o, nil, nil), participle.ParseTypeWith(parseShape))...)
	},
	altBuild: func(o buildOpts) PH {
		return mustPH[shFile](nil, append(applyCommon(o, nil, nil), participle.ParseTypeWith(parseShapeAlt))...)
	},
	docs: []doc{
		{name: "two", valid: true, text: "circle 3; rect 4 5;"},
		flatDoc("flat", "", "circle 1; ", ""),
		{name: "empty", valid: true, text: ""},
		{name: "bad-number", valid: false, text: "rect 1 x;"},
		{name: "unknown", valid: false, text: "circle 2; triangle 3;"},
		{name: "plain-user-error", valid: false, foreignErr: true, text: "circle 1; hexagon 6;"},
	},
}
