package main

import (
	"errors"
	"fmt"
	"reflect"
	"strings"

	"github.com/alecthomas/participle/v2/lexer"
	"github.com/alecthomas/participle/v2/simrt"
)

// C12 — PeekingLexer histories over forked cursors, checked against an explicit model.
//
// The model: the token array T[0..n] (T[n] is the only EOF), the elision set E, and per cursor
// one integer raw in [0,n].  Every observable is a pure function of (T, E, raw).  It shares no
// code with lexer/peek.go.

func init() { register(&profile{id: "C12", num: 12, name: "peek", run: runPeek}) }

type sliceLexer struct {
	toks   []lexer.Token
	i      int
	failAt int // -1: never
}

var errSource = errors.New("sim: source lexer failed")

func (s *sliceLexer) Next() (lexer.Token, error) {
	simrt.YieldPoint(simrt.SiteSourceNext)
	if s.i == s.failAt {
		s.i++
		return lexer.Token{}, errSource
	}
	if s.i >= len(s.toks) {
		return s.toks[len(s.toks)-1], nil
	}
	t := s.toks[s.i]
	s.i++
	return t, nil
}

type peekModel struct {
	toks  []lexer.Token
	elide map[lexer.TokenType]bool
}

func (m *peekModel) n() int { return len(m.toks) - 1 }

func (m *peekModel) visible(i int) bool { return i >= m.n() || !m.elide[m.toks[i].Type] }

func (m *peekModel) peekIdx(raw int) int {
	i := raw
	for !m.visible(i) {
		i++
	}
	return i
}

func (m *peekModel) cursor(raw int) int {
	c := 0
	for i := 0; i < raw && i < m.n(); i++ {
		if m.visible(i) {
			c++
		}
	}
	return c
}

func (m *peekModel) peekAny(raw int, pred func(lexer.Token) bool) int {
	i := raw
	for i < m.n() && !pred(m.toks[i]) && !m.visible(i) {
		i++
	}
	return i
}

type peekPred struct {
	name string
	f    func(lexer.Token) bool
}

var peekPreds = []peekPred{
	{"never", func(lexer.Token) bool { return false }},
	{"always", func(lexer.Token) bool { return true }},
	{"type1", func(t lexer.Token) bool { return t.Type == peekTypes[0] }},
	{"type2or3", func(t lexer.Token) bool { return t.Type == peekTypes[1] || t.Type == peekTypes[2] }},
	{"type4", func(t lexer.Token) bool { return t.Type == peekTypes[3] }},
	{"valueA", func(t lexer.Token) bool { return t.Value == "a" }},
	{"valueB", func(t lexer.Token) bool { return t.Value == "b" }},
}

// peekTypes is the token-type alphabet: negative types (what the stateful and text/scanner lexers
// produce), zero and positive ones.
var peekTypes = []lexer.TokenType{-3, -2, 0, 7}

var peekOpNames = []string{"Peek", "Next", "RawPeek", "PeekAny", "FastForward", "Range", "Cursor", "MakeCheckpoint", "LoadCheckpoint", "Fork", "Drop", "PeekAnyFF"}

type peekCopy struct {
	pl      lexer.PeekingLexer
	raw     int
	lastAny int // cursor returned by the most recent PeekAny on this copy, -1 if none
}

type peekCkpt struct {
	cp    lexer.Checkpoint
	raw   int
	owner int
}

// peekTypePool: type numbers around the widths of bit sets and small tables (the 63rd symbol of a
// definition has type -64).
var peekTypePool = []lexer.TokenType{-64, -63, -65, -32, -33, -31, -128, -127, -129, -256, -255, 63, 64, 65, 127, 128, 255, 256, 1 << 16, -(1 << 16)}

func runPeek(rc *RunCtx) *Violation {
	n := simrt.Choose(bound(25, 41))
	// the alphabet: usually {-3,-2,0,7}; one run in four swaps one or two entries for pool values
	peekTypes = []lexer.TokenType{-3, -2, 0, 7}
	if simrt.Choose(4) == 1 {
		for k := 1 + simrt.Choose(2); k > 0; k-- {
			v := peekTypePool[simrt.Choose(len(peekTypePool))]
			dup := false
			for _, t := range peekTypes {
				dup = dup || t == v
			}
			if !dup {
				peekTypes[simrt.Choose(4)] = v
			}
		}
		rc.probe("token-type alphabet with numbers around 32 / 64 / 128 / 256 / 65536")
	}
	// elision set over the 4-type alphabet plus, sometimes, EOF's own type
	mask := simrt.Choose(32)
	if simrt.Choose(4) == 1 {
		mask = 15 // everything elided
	}
	m := &peekModel{elide: map[lexer.TokenType]bool{}}
	var elideList []lexer.TokenType
	for b := 0; b < 4; b++ {
		if mask&(1<<b) != 0 {
			m.elide[peekTypes[b]] = true
			elideList = append(elideList, peekTypes[b])
		}
	}
	if mask&16 != 0 {
		m.elide[lexer.EOF] = true
		elideList = append(elideList, lexer.EOF)
	}
	if len(elideList) > 0 && simrt.Choose(4) == 1 {
		elideList = append(elideList, elideList[0]) // a duplicate entry must change nothing
	}
	// with few elided types, bias token types towards them so that elided runs appear
	pos := lexer.Position{Filename: "peek", Line: 1, Column: 1}
	types := make([]lexer.TokenType, 0, n)
	for i := 0; i < n; i++ {
		types = append(types, peekTypes[simrt.Choose(4)])
	}
	if mask&15 != 0 && simrt.Choose(32) == 1 {
		// a long run of elided tokens (a licence header of comment lines, a block of blank lines),
		// with lengths around the widths of small counters
		var et []lexer.TokenType
		for b := 0; b < 4; b++ {
			if mask&(1<<b) != 0 {
				et = append(et, peekTypes[b])
			}
		}
		l := []int{128, 256, 512}[simrt.Choose(3)] - 1 + simrt.Choose(3)
		at := simrt.Choose(n + 1)
		run := make([]lexer.TokenType, l)
		for i := range run {
			run[i] = et[simrt.Choose(len(et))]
		}
		types = append(types[:at:at], append(run, types[at:]...)...)
		n = len(types)
		rc.probe("run of 127-513 consecutive elided tokens")
	}
	flags := make([]byte, 0, n+1)
	for i := 0; i < n; i++ {
		tt := types[i]
		val := string(rune('a' + simrt.Choose(3)))
		m.toks = append(m.toks, lexer.Token{Type: tt, Value: val, Pos: pos})
		pos.Advance(val)
		if m.elide[tt] {
			flags = append(flags, 'e')
		} else {
			flags = append(flags, 'v')
		}
	}
	m.toks = append(m.toks, lexer.EOFToken(pos))
	orig := append([]lexer.Token(nil), m.toks...)
	allElided := n > 0 && !strings.Contains(string(flags), "v")
	if allElided {
		rc.probe("all-elided stream")
	}
	if n == 0 {
		rc.probe("empty stream")
	}

	src := &sliceLexer{toks: append([]lexer.Token(nil), m.toks...), failAt: -1}
	if simrt.Choose(16) == 1 {
		src.failAt = simrt.Choose(n + 1)
	}
	viol := func(op, what, detail string) *Violation {
		return &Violation{Signature: "peek/" + op + "/" + what,
			Detail: fmt.Sprintf("%s: %s; tokens(elided=e)=%s elide=%v", op, detail, flags, elideList),
			Input:  string(flags)}
	}
	if len(elideList) > 0 && simrt.Choose(4) == 1 {
		// a caller that reuses one buffer for its elide lists: an earlier Upgrade with other contents
		// in the very same slice must leave no trace
		buf := make([]lexer.TokenType, len(elideList))
		for i := range buf {
			buf[i] = peekTypes[(i+1+simrt.Choose(3))%4]
		}
		first := &sliceLexer{toks: []lexer.Token{{Type: peekTypes[0], Value: "a"}, lexer.EOFToken(lexer.Position{})}, failAt: -1}
		catch(func() { lexer.Upgrade(first, buf...) })
		copy(buf, elideList)
		elideList = buf
		rc.probe("elide buffer reused from an earlier Upgrade with other contents")
	}
	var pl *lexer.PeekingLexer
	var uerr error
	if p := catch(func() { pl, uerr = lexer.Upgrade(src, elideList...) }); p != "" {
		return viol("Upgrade", "panic", p)
	}
	if src.failAt >= 0 {
		rc.fault("source-lexer-error")
		rc.keyAdd("srcfail")
		if uerr == nil {
			return viol("Upgrade", "error-swallowed", fmt.Sprintf("source lexer failed at token %d but Upgrade returned no error", src.failAt))
		}
		return nil
	}
	if uerr != nil {
		return viol("Upgrade", "error", uerr.Error())
	}

	copies := []*peekCopy{{pl: *pl, raw: 0, lastAny: -1}}
	var ckpts []peekCkpt
	var anyCursors []int // every cursor PeekAny ever returned in this run
	steps := simrt.Choose(bound(61, 151))
	var ops []string
	consumed, restoreAfterConsume, ffOverElided := false, false, false

	observe := func(op string) *Violation {
		for ci, c := range copies {
			var pk, rp lexer.Token
			var cur int
			var rc2 lexer.RawCursor
			// observe on a by-value copy (what the parser's Branch does): looking must not change
			// what a later operation on the original sees
			tmp := c.pl
			if p := catch(func() {
				pk = *tmp.Peek()
				rp = *tmp.RawPeek()
				cur = tmp.Cursor()
				rc2 = tmp.RawCursor()
			}); p != "" {
				return viol(op, "observe-panic", fmt.Sprintf("copy %d: %s", ci, p))
			}
			if want := m.toks[m.peekIdx(c.raw)]; pk != want {
				return viol(op, "Peek", fmt.Sprintf("copy %d raw=%d: Peek()=%v want %v", ci, c.raw, pk.GoString(), want.GoString()))
			}
			if want := m.toks[c.raw]; rp != want {
				return viol(op, "RawPeek", fmt.Sprintf("copy %d raw=%d: RawPeek()=%v want %v", ci, c.raw, rp.GoString(), want.GoString()))
			}
			if want := m.cursor(c.raw); cur != want {
				return viol(op, "Cursor", fmt.Sprintf("copy %d raw=%d: Cursor()=%d want %d", ci, c.raw, cur, want))
			}
			if int(rc2) != c.raw {
				return viol(op, "RawCursor", fmt.Sprintf("copy %d: RawCursor()=%d want %d", ci, rc2, c.raw))
			}
		}
		return nil
	}
	if v := observe("Upgrade"); v != nil {
		return v
	}

	for s := 0; s < steps; s++ {
		ci := simrt.Choose(len(copies))
		c := copies[ci]
		op := simrt.Choose(len(peekOpNames))
		name := peekOpNames[op]
		ops = append(ops, name)
		var v *Violation
		switch name {
		case "Peek":
			var got lexer.Token
			if p := catch(func() { got = *c.pl.Peek() }); p != "" {
				return viol(name, "panic", p)
			}
			if want := m.toks[m.peekIdx(c.raw)]; got != want {
				return viol(name, "result", fmt.Sprintf("copy %d raw=%d: Peek()=%v want %v", ci, c.raw, got.GoString(), want.GoString()))
			}
		case "Next":
			var got lexer.Token
			if p := catch(func() { got = *c.pl.Next() }); p != "" {
				return viol(name, "panic", p)
			}
			idx := m.peekIdx(c.raw)
			if got != m.toks[idx] {
				return viol(name, "result", fmt.Sprintf("copy %d raw=%d: Next()=%v want %v", ci, c.raw, got.GoString(), m.toks[idx].GoString()))
			}
			if idx < m.n() {
				c.raw = idx + 1
				consumed = true
			} else {
				rc.probe("Next at EOF")
			}
		case "RawPeek":
			var got lexer.Token
			if p := catch(func() { got = *c.pl.RawPeek() }); p != "" {
				return viol(name, "panic", p)
			}
			if want := m.toks[c.raw]; got != want {
				return viol(name, "result", fmt.Sprintf("copy %d raw=%d: RawPeek()=%v want %v", ci, c.raw, got.GoString(), want.GoString()))
			}
		case "PeekAny", "PeekAnyFF":
			pr := peekPreds[simrt.Choose(len(peekPreds))]
			var got lexer.Token
			var gc lexer.RawCursor
			if p := catch(func() { got, gc = c.pl.PeekAny(pr.f) }); p != "" {
				return viol("PeekAny", "panic", p)
			}
			want := m.peekAny(c.raw, pr.f)
			if int(gc) != want || got != m.toks[want] {
				return viol("PeekAny", "result", fmt.Sprintf("copy %d raw=%d pred=%s: PeekAny()=(%v,%d) want (%v,%d)", ci, c.raw, pr.name, got.GoString(), gc, m.toks[want].GoString(), want))
			}
			if want < m.n() && !m.visible(want) {
				rc.probe("PeekAny returned an elided token")
			}
			c.lastAny = want
			anyCursors = append(anyCursors, want)
			if name == "PeekAnyFF" {
				v = ffStep(rc, m, c, ci, want, viol, &ffOverElided, &consumed)
			}
		case "FastForward":
			// to a cursor PeekAny returned: usually the latest one on this copy, sometimes any
			// earlier one from any copy (possibly behind this cursor)
			target := c.lastAny
			if len(anyCursors) > 0 && simrt.Choose(4) == 1 {
				target = anyCursors[simrt.Choose(len(anyCursors))]
			}
			if target < 0 {
				ops[len(ops)-1] = "FastForward(skipped)"
				break
			}
			v = ffStep(rc, m, c, ci, target, viol, &ffOverElided, &consumed)
		case "Range":
			a := simrt.Choose(c.raw + 1)
			b := a + simrt.Choose(c.raw-a+1)
			var got []lexer.Token
			if p := catch(func() { got = c.pl.Range(lexer.RawCursor(a), lexer.RawCursor(b)) }); p != "" {
				return viol(name, "panic", p)
			}
			if len(got) != b-a {
				return viol(name, "result", fmt.Sprintf("Range(%d,%d) has %d tokens", a, b, len(got)))
			}
			for i := range got {
				if got[i] != m.toks[a+i] {
					return viol(name, "result", fmt.Sprintf("Range(%d,%d)[%d]=%v want %v", a, b, i, got[i].GoString(), m.toks[a+i].GoString()))
				}
			}
		case "Cursor":
			if got, want := c.pl.Cursor(), m.cursor(c.raw); got != want {
				return viol(name, "result", fmt.Sprintf("copy %d raw=%d: Cursor()=%d want %d", ci, c.raw, got, want))
			}
		case "MakeCheckpoint":
			if len(ckpts) < 16 {
				cp := c.pl.MakeCheckpoint()
				if int(cp.RawCursor()) != c.raw || cp.Cursor() != m.cursor(c.raw) {
					return viol(name, "checkpoint-contents", fmt.Sprintf("checkpoint taken at raw=%d reports RawCursor()=%d Cursor()=%d, want %d and %d", c.raw, cp.RawCursor(), cp.Cursor(), c.raw, m.cursor(c.raw)))
				}
				ckpts = append(ckpts, peekCkpt{cp: cp, raw: c.raw, owner: ci})
			}
		case "LoadCheckpoint":
			if len(ckpts) == 0 {
				ops[len(ops)-1] = "LoadCheckpoint(skipped)"
				break
			}
			k := ckpts[simrt.Choose(len(ckpts))]
			if p := catch(func() { c.pl.LoadCheckpoint(k.cp) }); p != "" {
				return viol(name, "panic", p)
			}
			if consumed {
				restoreAfterConsume = true
			}
			if k.owner != ci {
				rc.probe("restore on a copy other than the one that saved")
			}
			if k.raw < c.raw {
				rc.probe("restore moved the cursor backwards")
			}
			c.raw = k.raw
			c.lastAny = -1
		case "Fork":
			if len(copies) < 4 {
				copies = append(copies, &peekCopy{pl: c.pl, raw: c.raw, lastAny: c.lastAny})
			}
		case "Drop":
			if len(copies) > 1 {
				copies = append(copies[:ci], copies[ci+1:]...)
				for i := range ckpts {
					if ckpts[i].owner == ci {
						ckpts[i].owner = -1
					} else if ckpts[i].owner > ci {
						ckpts[i].owner--
					}
				}
			}
		}
		if v != nil {
			return v
		}
		if v := observe(name); v != nil {
			return v
		}
	}
	// the shared array must be unchanged
	var all []lexer.Token
	if p := catch(func() { all = copies[0].pl.Range(0, lexer.RawCursor(len(orig))) }); p != "" {
		return viol("Range", "panic", "final Range over the whole array: "+p)
	}
	if !reflect.DeepEqual(all, orig) {
		return viol("final", "array-mutated", "the shared token array changed during the history")
	}
	rc.nontriv = restoreAfterConsume && ffOverElided
	rc.keyAdd(string(flags), fmt.Sprint(mask&16 != 0), strings.Join(ops, ","))
	rc.note("tokens_elided_flags", string(flags))
	rc.note("elide_types", fmt.Sprint(elideList))
	rc.note("ops", strings.Join(ops, " "))
	return nil
}

func ffStep(rc *RunCtx, m *peekModel, c *peekCopy, ci, target int, viol func(op, what, detail string) *Violation, ffOverElided, consumed *bool) *Violation {
	if p := catch(func() { c.pl.FastForward(lexer.RawCursor(target)) }); p != "" {
		return viol("FastForward", "panic", p)
	}
	newRaw := target + 1
	if newRaw > m.n() {
		newRaw = m.n()
	}
	if newRaw < c.raw {
		newRaw = c.raw
		rc.probe("FastForward to a cursor behind the current one")
	}
	for i := c.raw; i < newRaw; i++ {
		if !m.visible(i) {
			*ffOverElided = true
		}
	}
	if newRaw > c.raw {
		*consumed = true
	}
	if newRaw == m.n() && newRaw > c.raw && m.n() > 0 && !m.visible(m.n()-1) {
		rc.probe("FastForward over a trailing elided run into EOF")
	}
	c.raw = newRaw
	return nil
}

// catch runs f and returns the panic value it raised, rendered, or "".
func catch(f func()) (p string) {
	defer func() {
		if r := recover(); r != nil {
			if ce, ok := r.(simrt.CapExceeded); ok {
				p = fmt.Sprintf("step cap exceeded after %d steps", ce.Steps)
				return
			}
			if dl, ok := r.(simrt.Deadlock); ok {
				p = "deadlock: blocked on a mutex nobody can release any more, at " + dl.At
				return
			}
			p = panicString(r)
		}
	}()
	f()
	return ""
}
