package main

import (
	"encoding/json"
	"fmt"
	"hash/fnv"
	"reflect"
	"sort"
	"strings"

	"github.com/alecthomas/participle/v2/simrt"
)

// Violation of a property found in one run.
type Violation struct {
	Property  string   `json:"property"`
	Signature string   `json:"signature"` // stable identity: world / operation / clause
	Detail    string   `json:"detail"`
	Input     string   `json:"input,omitempty"` // concrete failing input (delivered bytes, definition, ...) for known-finding matching
	Seed      uint64   `json:"seed"`
	RunIndex  int64    `json:"run_index"`
	Sub       string   `json:"sub,omitempty"`
	Tape      []uint32 `json:"tape"`
}

// Agg accumulates what a worker's runs covered.
type Agg struct {
	Property     string            `json:"property"`
	Evaluations  int64             `json:"evaluations"`
	Nontrivial   int64             `json:"nontrivial"`
	Distinct     []uint64          `json:"distinct"` // keys of distinct non-trivial runs
	Faults       map[string]int64  `json:"faults"`
	Probes       map[string]int64  `json:"probes"`
	Worlds       map[string]int64  `json:"worlds"`
	Strategies   map[string]int64  `json:"strategies"`
	Outcomes     map[string]int64  `json:"outcomes"`
	Samples      []json.RawMessage `json:"samples"`
	Violations   []*Violation      `json:"violations"`
	Known        map[string]int64  `json:"known"`
	SimSteps     int64             `json:"sim_steps"`
	Switches     int64             `json:"switches"`
	StmtSwitch   int64             `json:"stmt_switches"`
	HotSwitch    int64             `json:"hot_switches"`
	Parks        int64             `json:"parks"`
	Directed     int64             `json:"directed_resumes"`
	Discarded    int64             `json:"discarded"`
	Pairs        []uint32          `json:"pairs"`
	MaxOpSteps   int64             `json:"max_op_steps"`
	MaxCapRatio  float64           `json:"max_step_cap_ratio"`
	MaxDepth     int64             `json:"max_depth"`
	Digest       uint64            `json:"digest"` // order-independent digest of (run index, event hash)
	MapRanges    int64             `json:"map_ranges"`
	MapShuffles  int64             `json:"map_shuffles"`
	Uncontrolled int64             `json:"uncontrolled_map_ranges"`
	Stalled      bool              `json:"stalled"`
	SlowestRunS  float64           `json:"slowest_run_seconds"`
	SlowestRun   int64             `json:"slowest_run_index"`
	WarmS        float64           `json:"warm_seconds"`
	FirstSeed    uint64            `json:"first_seed"`
	LastSeed     uint64            `json:"last_seed"`
	RaceReports  int64             `json:"race_reports"`
	Instrumented bool              `json:"instrumented"`
	Race         bool              `json:"race_build"`

	distinct map[uint64]struct{}
	pairs    map[uint32]struct{}
}

func newAgg(prop string) *Agg {
	return &Agg{Property: prop, Faults: map[string]int64{}, Probes: map[string]int64{}, Worlds: map[string]int64{},
		Strategies: map[string]int64{}, Outcomes: map[string]int64{}, Known: map[string]int64{}, distinct: map[uint64]struct{}{}, pairs: map[uint32]struct{}{}}
}

func (a *Agg) finish() {
	a.Distinct = a.Distinct[:0]
	for k := range a.distinct {
		a.Distinct = append(a.Distinct, k)
	}
	sort.Slice(a.Distinct, func(i, j int) bool { return a.Distinct[i] < a.Distinct[j] })
	a.Pairs = a.Pairs[:0]
	for k := range a.pairs {
		a.Pairs = append(a.Pairs, k)
	}
	sort.Slice(a.Pairs, func(i, j int) bool { return a.Pairs[i] < a.Pairs[j] })
	a.MapRanges = simrt.MapRanges
	a.MapShuffles = simrt.MapShuffles
	a.Uncontrolled = simrt.UncontrolledMapRanges
	a.Instrumented = simrt.Instrumented
	a.Race = simrt.RaceBuild
}

// RunCtx is what a profile sees of the run it is executing.
type RunCtx struct {
	agg      *Agg
	index    int64
	seed     uint64
	faults   map[string]int64
	probes   map[string]int64
	nontriv  bool
	key      []string
	sample   map[string]interface{}
	wantSamp bool
}

func (rc *RunCtx) fault(kind string)  { rc.faults[kind]++ }
func (rc *RunCtx) probe(name string)  { rc.probes[name]++ }
func (rc *RunCtx) keyAdd(s ...string) { rc.key = append(rc.key, s...) }
func (rc *RunCtx) note(k string, v interface{}) {
	if rc.wantSamp {
		rc.sample[k] = v
	}
}

func (rc *RunCtx) commit() {
	a := rc.agg
	a.Evaluations++
	for k, v := range rc.faults {
		a.Faults[k] += v
	}
	for k, v := range rc.probes {
		a.Probes[k] += v
	}
	if rc.nontriv {
		a.Nontrivial++
		if len(a.distinct) < maxDistinctPerWorker {
			a.distinct[hashStrings(rc.key)] = struct{}{}
		}
	}
	if rc.wantSamp && len(rc.sample) > 0 {
		rc.sample["run_index"] = rc.index
		rc.sample["run_seed"] = rc.seed
		rc.sample["nontrivial"] = rc.nontriv
		if js, err := json.Marshal(rc.sample); err == nil {
			a.Samples = append(a.Samples, js)
		}
	}
}

// maxDistinctPerWorker bounds the memory of the distinct-run set; beyond it the reported number of
// distinct runs is a lower bound.
const maxDistinctPerWorker = 250000

func hashStrings(ss []string) uint64 {
	h := fnv.New64a()
	for _, s := range ss {
		h.Write([]byte(s))
		h.Write([]byte{0})
	}
	return h.Sum64()
}

func hashString(s string) uint64 {
	h := fnv.New64a()
	h.Write([]byte(s))
	return h.Sum64()
}

// isNil reports whether v is nil or a typed nil pointer / map / slice / interface.
func isNil(v interface{}) bool {
	if v == nil {
		return true
	}
	rv := reflect.ValueOf(v)
	switch rv.Kind() {
	case reflect.Ptr, reflect.Map, reflect.Slice, reflect.Interface, reflect.Func, reflect.Chan:
		return rv.IsNil()
	}
	return false
}

// callResult is the complete observable outcome of one API call.
type callResult struct {
	Val   interface{}
	Err   error
	Panic string // non-empty: the call panicked with this value
}

// errDesc renders everything observable about an error: dynamic type, text, and for located
// errors position and message.
func errDesc(err error) string {
	if err == nil {
		return "<nil>"
	}
	type located interface {
		Message() string
	}
	s := fmt.Sprintf("%T|%s", err, safeError(err))
	if l, ok := err.(located); ok {
		s += "|msg=" + safeMessage(l)
	}
	if p, ok := positionOf(err); ok {
		s += fmt.Sprintf("|pos=%s:%d:%d:%d", p.Filename, p.Offset, p.Line, p.Column)
	}
	return s
}

func safeError(err error) (s string) {
	defer func() {
		if r := recover(); r != nil {
			s = fmt.Sprintf("<Error() panicked: %v>", r)
		}
	}()
	return err.Error()
}

func safeMessage(l interface{ Message() string }) (s string) {
	defer func() {
		if r := recover(); r != nil {
			s = fmt.Sprintf("<Message() panicked: %v>", r)
		}
	}()
	return l.Message()
}

func (r callResult) desc() string {
	if r.Panic != "" {
		return "panic: " + r.Panic
	}
	return fmt.Sprintf("val=%s err=%s", valDesc(r.Val), errDesc(r.Err))
}

func valDesc(v interface{}) string {
	if isNil(v) {
		return "<nil>"
	}
	return render(v, true)
}

func deref(v interface{}) interface{} {
	rv := reflect.ValueOf(v)
	for rv.Kind() == reflect.Ptr && !rv.IsNil() {
		rv = rv.Elem()
	}
	if rv.CanInterface() {
		return rv.Interface()
	}
	return v
}

// sameResult compares two call results: values by DeepEqual, errors by everything errDesc shows.
func sameResult(a, b callResult) bool {
	if a.Panic != "" || b.Panic != "" {
		return a.Panic == b.Panic
	}
	if isNil(a.Val) != isNil(b.Val) {
		return false
	}
	if !isNil(a.Val) && !reflect.DeepEqual(a.Val, b.Val) {
		return false
	}
	return errDesc(a.Err) == errDesc(b.Err)
}

func clip(s string, n int) string {
	if len(s) <= n {
		return s
	}
	return s[:n] + fmt.Sprintf("...(+%d bytes)", len(s)-n)
}

func quoteClip(s string, n int) string { return fmt.Sprintf("%q", clip(s, n)) }

func panicString(r interface{}) string {
	s := fmt.Sprint(r)
	// addresses would make signatures unstable
	if i := strings.Index(s, "0x"); i >= 0 {
		s = s[:i] + "0x…"
	}
	return s
}

// sigNorm makes a message usable inside a violation signature: digit runs become N so that the
// same defect on another input keeps its identity.
func sigNorm(s string) string {
	var b strings.Builder
	inDigits := false
	for _, r := range s {
		if r >= '0' && r <= '9' {
			if !inDigits {
				b.WriteByte('N')
			}
			inDigits = true
			continue
		}
		inDigits = false
		b.WriteRune(r)
	}
	out := b.String()
	if len(out) > 120 {
		out = out[:120]
	}
	return out
}
