package main

import (
	"fmt"
	"os"
	"regexp"
	"sort"
	"strings"
)

var frameRe = regexp.MustCompile(`^\s+(\S+\.go):(\d+)`)

// raceSignature extracts from the detector's text the unordered pair of source locations
// (file:line inside the code under test, original line numbers: the instrumenter never adds a
// newline) of the first report, plus a short rendering of it.  Frames inside the simulator's
// runtime are skipped; if a stack has no frame in the code under test its top frame is used.
func raceSignature(txt string) (sig, detail string) {
	i := strings.Index(txt, "WARNING: DATA RACE")
	if i < 0 {
		return "", ""
	}
	txt = txt[i:]
	if j := strings.Index(txt[1:], "=================="); j >= 0 {
		txt = txt[:j+1]
	}
	root, _ := os.Getwd()
	if r := os.Getenv("VERIF_SCRATCH_ROOT"); r != "" {
		root = r
	}
	lines := strings.Split(txt, "\n")
	var stacks [][]string
	var curStack []string
	inAccess := false
	for _, ln := range lines {
		switch {
		case strings.HasPrefix(ln, "Write at") || strings.HasPrefix(ln, "Read at") || strings.HasPrefix(ln, "Previous write at") ||
			strings.HasPrefix(ln, "Previous read at") || strings.HasPrefix(ln, "Atomic") || strings.HasPrefix(ln, "Previous atomic"):
			if inAccess {
				stacks = append(stacks, curStack)
			}
			curStack = nil
			inAccess = true
		case strings.HasPrefix(ln, "Goroutine "):
			if inAccess {
				stacks = append(stacks, curStack)
				inAccess = false
			}
		default:
			if inAccess {
				if m := frameRe.FindStringSubmatch(ln); m != nil {
					curStack = append(curStack, m[1]+":"+m[2])
				}
			}
		}
	}
	if inAccess {
		stacks = append(stacks, curStack)
	}
	var locs []string
	for _, st := range stacks {
		loc := ""
		for _, f := range st {
			rel := strings.TrimPrefix(f, root+"/")
			if rel == f && strings.HasPrefix(f, "/") {
				continue // outside the scratch tree (standard library)
			}
			if strings.HasPrefix(rel, "simrt/") {
				continue
			}
			loc = rel
			break
		}
		if loc == "" && len(st) > 0 {
			loc = st[0]
		}
		locs = append(locs, loc)
	}
	if len(locs) > 2 {
		locs = locs[:2]
	}
	sort.Strings(locs)
	sig = strings.Join(locs, "~")
	if sig == "" {
		sig = "unparsed"
	}
	return sig, fmt.Sprintf("data race between %s (detector report: %s)", strings.Join(locs, " and "), clip(strings.ReplaceAll(txt, "\n", " | "), 1500))
}
