package main

import (
	"fmt"
	"hash/fnv"
	"os"
	"strings"

	"github.com/alecthomas/participle/v2/lexer"
)

// refDigestMain prints a digest of the results of every corpus document under every world and
// build variant, and of every corpus input under every lexer definition.  The driver's self-test
// compares the digest of the instrumented build with that of an uninstrumented build of the same
// tree: the instrumenter must not change what participle computes.
func refDigestMain(args []string) {
	h := fnv.New64a()
	n := 0
	add := func(s string) {
		h.Write([]byte(s))
		h.Write([]byte{0})
		n++
	}
	delims := runDelims(424242)
	worlds := robustWorlds
	for _, w := range worlds {
		for _, gen := range []bool{false, true} {
			if gen && (w.hasGen == nil || !w.hasGen()) {
				continue
			}
			for _, la := range w.lookaheads() {
				for _, narrow := range []bool{false, true} {
					p := w.build(buildOpts{lookahead: la, generated: gen, narrow: narrow})
					add(call(func() (interface{}, error) { s := p.String(); return &s, nil }).desc())
					for _, d := range w.docs {
						texts := []string{d.text}
						exact := w.verbatim || backtrackingWorlds[w.name] // documents of such worlds are used as they are
						if d.unitLen > 0 && !exact {
							texts = append(texts, d.expand(7))
						}
						if d.nest != nil && !exact {
							texts = append(texts, d.nest(9))
						}
						for _, t := range texts {
							t = instantiate(t, delims)
							for cut := 0; cut <= 2; cut++ {
								in := t
								if cut > 0 && exact {
									continue
								}
								if cut > 0 && len(t) > 2 {
									in = t[:len(t)*cut/3]
								}
								if os.Getenv("VERIF_REFDIGEST_PROGRESS") != "" {
									fmt.Fprintf(os.Stderr, "refdigest: %s la=%d gen=%v narrow=%v doc=%s cut=%d len=%d\n", w.name, la, gen, narrow, d.name, cut, len(in))
								}
								add(call(func() (interface{}, error) { return p.ParseString("ref", in) }).desc())
								add(lexCall(func() ([]lexer.Token, error) { return p.Lex("ref", strings.NewReader(in)) }).desc())
							}
						}
					}
				}
			}
		}
	}
	for _, ld := range lexDefs {
		defs := []lexer.Definition{ld.build()}
		if ld.genName != "" && generatedDefs[ld.genName] != nil {
			defs = append(defs, generatedDefs[ld.genName])
		}
		for _, def := range defs {
			for _, x := range ld.corpus {
				x = instantiate(x, delims)
				add(lexCall(func() ([]lexer.Token, error) {
					lx, err := def.Lex("ref", strings.NewReader(x))
					if err != nil {
						return nil, err
					}
					return lexer.ConsumeAll(lx)
				}).desc())
			}
		}
	}
	fmt.Printf("{\"digest\":%d,\"results\":%d}\n", h.Sum64(), n)
}
