package main

func refDigestMain(args []string) {}
