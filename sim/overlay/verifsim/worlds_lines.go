package main

import (
	"text/scanner"

	"github.com/alecthomas/participle/v2"
	"github.com/alecthomas/participle/v2/lexer"
)

// W-lines: newlines are tokens that the parser elides, and the grammar matches them explicitly
// with a bare (uncaptured) literal at the end of every entry.
type lnFile struct {
	Pos     lexer.Position
	Entries []*lnEntry `@@*`
	EndPos  lexer.Position
	Tokens  []lexer.Token
}

type lnEntry struct {
	Key string `@Ident "="`
	Val int    `@Int "\n"`
}

var worldLines = &world{
	name: "lines", lexerKind: "stateful", junk: "",
	build: func(o buildOpts) PH {
		def := lexer.MustSimple([]lexer.SimpleRule{
			{Name: "Ident", Pattern: `[a-zA-Z_\p{L}][\w\p{L}]*`},
			{Name: "Int", Pattern: `\d+`},
			{Name: "Punct", Pattern: `=`},
			{Name: "EOL", Pattern: `\n`},
			{Name: "whitespace", Pattern: `[ \t\r]+`},
		})
		return mustPH[lnFile]([]string{"EOL"}, applyCommon(o, def, nil)...)
	},
	docs: []doc{
		{name: "two", valid: true, text: "a = 1\nb = 2\n"},
		{name: "blank-lines", valid: true, text: "\n\na = 1\n\n\nünï = 22\n\n"},
		flatDoc("flat", "", "k = 7\n", ""),
		{name: "empty", valid: true, text: ""},
		{name: "no-final-newline", valid: false, text: "a = 1\nb = 2"},
		{name: "missing-value", valid: false, text: "a = 1\nb = \nc = 3\n"},
		{name: "bad-char", valid: false, text: "a = 1\nb = $\n"},
	},
}

// W-dashed: a text/scanner definition whose configure callback installs its own IsIdentRune
// (identifiers may contain dashes).  Other text/scanner worlds must be unaffected by it.
type dsFile struct {
	Pos   lexer.Position
	Words []string `@( Ident | Int | "," | "=" | "-" )*`
}

var worldDashed = &world{
	name: "dashed", lexerKind: "text/scanner", junk: "",
	build: func(o buildOpts) PH {
		def := lexer.NewTextScannerLexer(func(s *scanner.Scanner) {
			s.IsIdentRune = func(ch rune, i int) bool {
				return ch == '_' || ch >= 'a' && ch <= 'z' || ch >= 'A' && ch <= 'Z' || ch >= 0x80 || (i > 0 && (ch == '-' || ch >= '0' && ch <= '9'))
			}
		})
		return mustPH[dsFile](nil, applyCommon(o, def, nil)...)
	},
	docs: []doc{
		{name: "dashes", valid: true, text: "foo-bar, x-y-1 = left-right - 3"},
		{name: "plain", valid: true, text: "a b c 1 2"},
		flatDoc("flat", "", "kebab-case ", ""),
		{name: "empty", valid: true, text: ""},
		{name: "bad", valid: false, text: "a-b ; c"},
	},
}

var _ = participle.MaxLookahead
