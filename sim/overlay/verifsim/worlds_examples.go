package main

import (
	"strings"

	"github.com/alecthomas/participle/v2"
	"github.com/alecthomas/participle/v2/lexer"
)

// Worlds ported from the repository's realistic example grammars (/repo/_examples).  Grammar
// structs, lexer rules and parser options are copied faithfully (only renamed with a per-world
// prefix); everything that is not grammar (main functions, evaluation, printing) is dropped.
//
// A document is marked valid only if it parses under every lookahead of world.lookaheads(); the
// samples of examples that depend on their own UseLookahead(2) (microc) are therefore not among
// the documents, but they are kept in the corpus of the corresponding lexer definition.

// exDocTexts returns the texts of a world's documents followed by extra texts (the corpus of the
// world's lexer definition).
func exDocTexts(docs []doc, extra ...string) []string {
	var out []string
	seen := map[string]bool{}
	for _, d := range docs {
		if !seen[d.text] {
			seen[d.text] = true
			out = append(out, d.text)
		}
	}
	for _, x := range extra {
		if !seen[x] {
			seen[x] = true
			out = append(out, x)
		}
	}
	return out
}

// ---------------------------------------------------------------------------------------------
// ex-json (_examples/json): simple stateful lexer, Unquote, Elide, UseLookahead(2)
// ---------------------------------------------------------------------------------------------

func exjRules() []lexer.SimpleRule {
	return []lexer.SimpleRule{
		{Name: "Comment", Pattern: `\/\/[^\n]*`},
		{Name: "String", Pattern: `"(\\"|[^"])*"`},
		{Name: "Number", Pattern: `[-+]?(\d*\.)?\d+`},
		{Name: "Punct", Pattern: `[-[!@#$%^&*()+_={}\|:;"'<,>.?/]|]`},
		{Name: "Null", Pattern: "null"},
		{Name: "True", Pattern: "true"},
		{Name: "False", Pattern: "false"},
		{Name: "EOL", Pattern: `[\n\r]+`},
		{Name: "Whitespace", Pattern: `[ \t]+`},
	}
}

type exjJson struct {
	Pos lexer.Position

	Object *exjObject `parser:"@@ |"`
	Array  *exjArray  `parser:"@@ |"`
	Number *string    `parser:"@Number |"`
	String *string    `parser:"@String |"`
	False  *string    `parser:"@False |"`
	True   *string    `parser:"@True |"`
	Null   *string    `parser:"@Null"`
}

type exjObject struct {
	Pos lexer.Position

	Pairs []*exjPair `parser:"'{' @@ (',' @@)* '}'"`
}

type exjPair struct {
	Pos lexer.Position

	Key   string   `parser:"@String ':'"`
	Value *exjJson `parser:"@@"`
}

type exjArray struct {
	Pos lexer.Position

	Items []*exjJson `parser:"'[' @@ (',' @@)* ']'"`
}

const exjSample = `{
    "list": [1, 1.2, 1, -1, {"foo": "bar"}, true, false, null],
    "object": {
        "foo1": "bar2",
        "foo2": true,
        "foo3": false,
        "foo4": null,
        "foo5": 1,
        "foo6": "ss"
    }
}`

// a trimmed excerpt of _examples/jsonpath/github-webhook.json (the full file contains empty arrays,
// which this grammar does not accept)
const exjWebhook = `{
  "action": "created",
  "check_run": {
    "id": 128620228,
    "node_id": "MDg6Q2hlY2tSdW4xMjg2MjAyMjg=",
    "external_id": "",
    "url": "https://api.github.com/repos/Codertocat/Hello-World/check-runs/128620228",
    "conclusion": null,
    "started_at": "2019-05-15T15:21:12Z",
    "output": {
      "title": null,
      "annotations_count": 0
    },
    "check_suite": {
      "id": 118578147,
      "head_branch": "changes",
      "pull_requests": [
        {
          "url": "https://api.github.com/repos/Codertocat/Hello-World/pulls/2",
          "number": 2,
          "head": {
            "ref": "changes",
            "repo": {
              "id": 186853002,
              "name": "Hello-World"
            }
          }
        }
      ],
      "app": {
        "owner": {
          "following_url": "https://api.github.com/users/Octocoders/following{/other_user}",
          "site_admin": false
        },
        "permissions": {
          "administration": "write"
        }
      }
    }
  }
}
`

var worldExJSON = &world{
	name: "ex-json", lexerKind: "stateful", junk: "",
	build: func(o buildOpts) PH {
		opts := applyCommon(o, lexer.MustSimple(exjRules()), nil)
		opts = append(opts, participle.Unquote("String"))
		if o.lookahead == 0 {
			opts = append(opts, participle.UseLookahead(2))
		}
		return mustPH[exjJson]([]string{"Whitespace", "EOL"}, opts...)
	},
	docs: []doc{
		{name: "sample", valid: true, text: exjSample},
		{name: "webhook", valid: true, text: exjWebhook},
		{name: "webhook-empty-array", valid: false, text: strings.Replace(exjWebhook, `"administration": "write"`, `"administration": "write", "events": []`, 1)},
		{name: "unicode", valid: true, text: "{\"grüße\": \"zażółć gęślą jaźń ✓\",\r\n\t\"名前\": [\"値\", -1.5, +2, .5, \"a\\\"b\\\\n\\u00e9\"]}\n"},
		{name: "scalar", valid: true, text: "  -12.5\n"},
		{name: "string-root", valid: true, text: "\"just a ☃ string\""},
		flatDoc("flat-items", "[0", ", 1", "]"),
		flatDoc("flat-pairs", "{\"k\": 0", ", \"k\": [true]", "}\n"),
		{name: "nest", valid: true, text: "[[1]]", nest: func(d int) string {
			return strings.Repeat("[", d) + "1" + strings.Repeat("]", d)
		}},
		{name: "nest-obj", valid: true, text: `{"a": {"a": null}}`, nest: func(d int) string {
			return strings.Repeat(`{"a": `, d) + "null" + strings.Repeat("}", d)
		}},
		{name: "empty", valid: false, text: ""},
		{name: "empty-object", valid: false, text: "{}"},
		{name: "comment", valid: false, text: "// comments are lexed but not elided\n[1]"},
		{name: "unterminated-string", valid: false, text: "{\"a\": [1, \"abc], \n\"b\": 2}"},
		{name: "bad-word", valid: false, text: "{\"a\": [1, 2, nil], \"b\": 3}"},
		{name: "missing-colon", valid: false, text: "{\"a\": 1, \"b\" 2, \"c\": 3}"},
		{name: "trailing-comma", valid: false, text: "[1, 2, ]"},
	},
}

// ---------------------------------------------------------------------------------------------
// ex-toml (_examples/toml): simple stateful lexer, Unquote
// ---------------------------------------------------------------------------------------------

func extRules() []lexer.SimpleRule {
	return []lexer.SimpleRule{
		{Name: "DateTime", Pattern: `\d\d\d\d-\d\d-\d\dT\d\d:\d\d:\d\d(\.\d+)?(-\d\d:\d\d)?`},
		{Name: "Date", Pattern: `\d\d\d\d-\d\d-\d\d`},
		{Name: "Time", Pattern: `\d\d:\d\d:\d\d(\.\d+)?`},
		{Name: "Ident", Pattern: `[a-zA-Z_][a-zA-Z_0-9]*`},
		{Name: "String", Pattern: `"[^"]*"`},
		{Name: "Number", Pattern: `[-+]?[.0-9]+\b`},
		{Name: "Punct", Pattern: `\[|]|[-!()+/*=,]`},
		{Name: "comment", Pattern: `#[^\n]+`},
		{Name: "whitespace", Pattern: `\s+`},
	}
}

type extTOML struct {
	Pos lexer.Position

	Entries []*extEntry `@@*`
}

type extEntry struct {
	Field   *extField   `  @@`
	Section *extSection `| @@`
}

type extField struct {
	Key   string    `@Ident "="`
	Value *extValue `@@`
}

type extValue struct {
	String   *string     `  @String`
	DateTime *string     `| @DateTime`
	Date     *string     `| @Date`
	Time     *string     `| @Time`
	Bool     *bool       `| (@"true" | "false")`
	Number   *float64    `| @Number`
	List     []*extValue `| "[" ( @@ ( "," @@ )* )? "]"`
}

type extSection struct {
	Name   string      `"[" @(Ident ( "." Ident )*) "]"`
	Fields []*extField `@@*`
}

const extSample = `# This is a TOML document.

title = "TOML Example"

[owner]
name = "Tom Preston-Werner"
dob = 1979-05-27T07:32:00-08:00 # First class dates

[database]
server = "192.168.1.1"
ports = [ 8001, 8001, 8002 ]
connection_max = 5000
enabled = true
enabled = false

[servers]

  # Indentation (tabs and/or spaces) is allowed but not required
  [servers.alpha]
  ip = "10.0.0.1"
  dc = "eqdc10"

  [servers.beta]
  ip = "10.0.0.2"
  dc = "eqdc10"

[clients]
data = [ ["gamma", "delta"], [1, 2] ]

# Line breaks are OK when inside arrays
hosts = [
  "alpha",
  "omega"
]
`

var worldExTOML = &world{
	name: "ex-toml", lexerKind: "stateful", junk: "",
	build: func(o buildOpts) PH {
		opts := applyCommon(o, lexer.MustSimple(extRules()), nil)
		opts = append(opts, participle.Unquote("String"))
		return mustPH[extTOML](nil, opts...)
	},
	docs: []doc{
		{name: "sample", valid: true, text: extSample},
		{name: "unicode", valid: true, text: "title = \"zażółć gęślą jaźń ✓\" # käse ☃\r\n[sec.sub_1]\r\nname = \"名前\nsecond line\"\nwhen = 07:32:00.5\nday = 1979-05-27\nstamp = 1979-05-27T07:32:00.25\nneg = -1.5\nflag = false\n"},
		flatDoc("flat-fields", "k0 = 0\n", "k = 1\n", "[end]\nz = \"z\"\n"),
		flatDoc("flat-sections", "", "[s.t]\na = true\n", ""),
		flatDoc("flat-list", "xs = [0", ", 1", "]\n"),
		{name: "nest", valid: true, text: "v = [[1]]\n", nest: func(d int) string {
			return "v = " + strings.Repeat("[", d) + "1" + strings.Repeat("]", d) + "\n"
		}},
		{name: "empty", valid: true, text: ""},
		{name: "only-comment", valid: true, text: "# nothing here"},
		{name: "bare-hash", valid: false, text: "a = 1\n#\nb = 2\n"},
		{name: "unterminated-string", valid: false, text: "a = 1\nb = \"never closed\nc = 3\n"},
		{name: "missing-value", valid: false, text: "a = \n[b]\nc = 1\n"},
		{name: "dot-before-bracket", valid: false, text: "[sec]\nx = 1\n[sec.]\ny = 2\n"},
		{name: "unclosed-section", valid: false, text: "[sec]\nx = 1\n[sec.sub\ny = 2\n"},
		{name: "bad-list", valid: false, text: "xs = [1, 2,, 3]\ny = 2\n"},
	},
}

// ---------------------------------------------------------------------------------------------
// ex-hcl (_examples/hcl): default text/scanner lexer, Unquote(), a Capture implementation
// ---------------------------------------------------------------------------------------------

type exhBool bool

func (b *exhBool) Capture(v []string) error { *b = v[0] == "true"; return nil }

type exhValue struct {
	Boolean    *exhBool    `  @("true"|"false")`
	Identifier *string     `| @Ident ( @"." @Ident )*`
	String     *string     `| @(String|Char|RawString)`
	Number     *float64    `| @(Float|Int)`
	Array      []*exhValue `| "[" ( @@ ","? )* "]"`
}

type exhEntry struct {
	Key   string    `@Ident`
	Value *exhValue `( "=" @@`
	Block *exhBlock `  | @@ )`
}

type exhBlock struct {
	Parameters []*exhValue `@@*`
	Entries    []*exhEntry `"{" @@* "}"`
}

type exhConfig struct {
	Entries []*exhEntry `@@*`
}

const exhSample = `region = "us-west-2"
access_key = "something"
secret_key = "something_else"
bucket = "backups"

directory config {
    source_dir = "/etc/eventstore"
    dest_prefix = "escluster/config"
    exclude = ["*.hcl"]
    pre_backup_script = "before_backup.sh"
    post_backup_script = "after_backup.sh"
    pre_restore_script = "before_restore.sh"
    post_restore_script = "after_restore.sh"
    chmod = 0755
}

directory data {
    source_dir = "/var/lib/eventstore"
    dest_prefix = "escluster/a/data"
    exclude = [
        "*.merging"
    ]
    pre_restore_script = "before_restore.sh"
    post_restore_script = "after_restore.sh"
}`

var worldExHCL = &world{
	name: "ex-hcl", lexerKind: "text/scanner", junk: "",
	build: func(o buildOpts) PH {
		opts := applyCommon(o, nil, nil)
		opts = append(opts, participle.Unquote())
		return mustPH[exhConfig](nil, opts...)
	},
	docs: []doc{
		{name: "sample", valid: true, text: exhSample},
		{name: "unicode", valid: true, text: "größe = \"zażółć gęślą jaźń ✓\" // käse\r\nサーバー \"名前\" 'c' {\r\n\tキー = [1, 2.5 `raw\nstring` 'x', true, a.b.c,]\n\t/* ☃ */ inner { }\n}\n"},
		flatDoc("flat-entries", "k0 = 0\n", "k = v.w\n", "end { z = \"z\" }\n"),
		flatDoc("flat-blocks", "", "b \"p\" { a = 1 }\n", ""),
		flatDoc("flat-array", "xs = [0", ", 1", "]\n"),
		flatDoc("flat-params", "b", " p", " { }"),
		{name: "nest", valid: true, text: "a { a { } }", nest: func(d int) string {
			return strings.Repeat("a { ", d) + strings.Repeat("} ", d)
		}},
		{name: "nest-array", valid: true, text: "v = [[1]]", nest: func(d int) string {
			return "v = " + strings.Repeat("[", d) + "1" + strings.Repeat("]", d)
		}},
		{name: "empty", valid: true, text: ""},
		{name: "only-comment", valid: true, text: "// nothing here\n"},
		{name: "unterminated-string", valid: false, text: "a = 1\nb = \"never closed\nc = 3\n"},
		{name: "missing-value", valid: false, text: "a = \nb = 2\n"},
		{name: "unclosed-block", valid: false, text: "block {\n  a = 1\n  inner { b = 2 \n"},
		{name: "bad-escape", valid: false, text: "a = \"\\q\"\nb = 2\n"},
	},
}

// ---------------------------------------------------------------------------------------------
// ex-sql (_examples/sql): simple stateful lexer with a case-folded keyword rule, Unquote,
// CaseInsensitive, a Capture implementation, deep precedence chain
// ---------------------------------------------------------------------------------------------

func exqRules() []lexer.SimpleRule {
	return []lexer.SimpleRule{
		{Name: `Keyword`, Pattern: `(?i)\b(SELECT|FROM|TOP|DISTINCT|ALL|WHERE|GROUP|BY|HAVING|UNION|MINUS|EXCEPT|INTERSECT|ORDER|LIMIT|OFFSET|TRUE|FALSE|NULL|IS|NOT|ANY|SOME|BETWEEN|AND|OR|LIKE|AS|IN)\b`},
		{Name: `Ident`, Pattern: `[a-zA-Z_][a-zA-Z0-9_]*`},
		{Name: `Number`, Pattern: `[-+]?\d*\.?\d+([eE][-+]?\d+)?`},
		{Name: `String`, Pattern: `'[^']*'|"[^"]*"`},
		{Name: `Operators`, Pattern: `<>|!=|<=|>=|[-+*/%,.()=<>]`},
		{Name: "whitespace", Pattern: `\s+`},
	}
}

type exqBoolean bool

func (b *exqBoolean) Capture(values []string) error {
	*b = values[0] == "TRUE"
	return nil
}

// Select based on http://www.h2database.com/html/grammar.html
type exqSelect struct {
	Top        *exqTerm             `"SELECT" ( "TOP" @@ )?`
	Distinct   bool                 `(  @"DISTINCT"`
	All        bool                 ` | @"ALL" )?`
	Expression *exqSelectExpression `@@`
	From       *exqFrom             `"FROM" @@`
	Limit      *exqExpression       `( "LIMIT" @@ )?`
	Offset     *exqExpression       `( "OFFSET" @@ )?`
	GroupBy    *exqExpression       `( "GROUP" "BY" @@ )?`
}

type exqFrom struct {
	TableExpressions []*exqTableExpression `@@ ( "," @@ )*`
	Where            *exqExpression        `( "WHERE" @@ )?`
}

type exqTableExpression struct {
	Table  string           `( @Ident ( "." @Ident )*`
	Select *exqSelect       `  | "(" @@ ")"`
	Values []*exqExpression `  | "VALUES" "(" @@ ( "," @@ )* ")")`
	As     string           `( "AS" @Ident )?`
}

type exqSelectExpression struct {
	All         bool                    `  @"*"`
	Expressions []*exqAliasedExpression `| @@ ( "," @@ )*`
}

type exqAliasedExpression struct {
	Expression *exqExpression `@@`
	As         string         `( "AS" @Ident )?`
}

type exqExpression struct {
	Or []*exqOrCondition `@@ ( "OR" @@ )*`
}

type exqOrCondition struct {
	And []*exqCondition `@@ ( "AND" @@ )*`
}

type exqCondition struct {
	Operand *exqConditionOperand `  @@`
	Not     *exqCondition        `| "NOT" @@`
	Exists  *exqSelect           `| "EXISTS" "(" @@ ")"`
}

type exqConditionOperand struct {
	Operand      *exqOperand      `@@`
	ConditionRHS *exqConditionRHS `@@?`
}

type exqConditionRHS struct {
	Compare *exqCompare `  @@`
	Is      *exqIs      `| "IS" @@`
	Between *exqBetween `| "BETWEEN" @@`
	In      *exqIn      `| "IN" "(" @@ ")"`
	Like    *exqLike    `| "LIKE" @@`
}

type exqCompare struct {
	Operator string            `@( "<>" | "<=" | ">=" | "=" | "<" | ">" | "!=" )`
	Operand  *exqOperand       `(  @@`
	Select   *exqCompareSelect ` | @@ )`
}

type exqCompareSelect struct {
	All    bool       `(  @"ALL"`
	Any    bool       ` | @"ANY"`
	Some   bool       ` | @"SOME" )`
	Select *exqSelect `"(" @@ ")"`
}

type exqLike struct {
	Not     bool        `[ @"NOT" ]`
	Operand *exqOperand `@@`
}

type exqIs struct {
	Not          bool        `[ @"NOT" ]`
	Null         bool        `( @"NULL"`
	DistinctFrom *exqOperand `  | "DISTINCT" "FROM" @@ )`
}

type exqBetween struct {
	Start *exqOperand `@@`
	End   *exqOperand `"AND" @@`
}

type exqIn struct {
	Select      *exqSelect       `  @@`
	Expressions []*exqExpression `| @@ ( "," @@ )*`
}

type exqOperand struct {
	Summand []*exqSummand `@@ ( "|" "|" @@ )*`
}

type exqSummand struct {
	LHS *exqFactor `@@`
	Op  string     `[ @("+" | "-")`
	RHS *exqFactor `  @@ ]`
}

type exqFactor struct {
	LHS *exqTerm `@@`
	Op  string   `( @("*" | "/" | "%")`
	RHS *exqTerm `  @@ )?`
}

type exqTerm struct {
	Select        *exqSelect     `  @@`
	Value         *exqValue      `| @@`
	SymbolRef     *exqSymbolRef  `| @@`
	SubExpression *exqExpression `| "(" @@ ")"`
}

type exqSymbolRef struct {
	Symbol     string           `@Ident @( "." Ident )*`
	Parameters []*exqExpression `( "(" @@ ( "," @@ )* ")" )?`
}

type exqValue struct {
	Wildcard bool        `(  @"*"`
	Number   *float64    ` | @Number`
	String   *string     ` | @String`
	Boolean  *exqBoolean ` | @("TRUE" | "FALSE")`
	Null     bool        ` | @"NULL"`
	Array    *exqArray   ` | @@ )`
}

type exqArray struct {
	Expressions []*exqExpression `"(" @@ ( "," @@ )* ")"`
}

var worldExSQL = &world{
	name: "ex-sql", lexerKind: "stateful", junk: "",
	build: func(o buildOpts) PH {
		opts := applyCommon(o, lexer.MustSimple(exqRules()), nil)
		opts = append(opts, participle.Unquote("String"), participle.CaseInsensitive("Keyword"))
		return mustPH[exqSelect](nil, opts...)
	},
	docs: []doc{
		{name: "sample", valid: true, text: `SELECT * FROM table WHERE attr = 10`},
		{name: "mixed-case", valid: true, text: "select distinct a.b, count(x) as n, 1.5e3 * y\r\nfrom t1, s.t2 as u\r\nwhere a >= 1 and not b like 'zażółć ✓%' or c is not null\n\tlimit 10 offset 5 group by a.b"},
		{name: "operators", valid: true, text: `Select Top 3 All f(1, 'x') + 2, "ü" From t Where a Between 1 And 2 + 3 And b In (1, 2, 3) And c <> d Or e Is Distinct From 7 % 2`},
		{name: "subselects", valid: true, text: `SELECT a FROM (SELECT * FROM t WHERE x != 1) AS s WHERE EXISTS (SELECT 1 FROM u) AND a > ALL (SELECT b FROM v) AND c IN (SELECT d FROM w)`},
		flatDoc("flat-columns", "SELECT a", ", a", " FROM t"),
		flatDoc("flat-and", "SELECT * FROM t WHERE a = 0", " AND a = 1", " LIMIT 1"),
		flatDoc("flat-or", "select * from t where a = 'ü'", " or b < 1", ""),
		flatDoc("flat-tables", "SELECT * FROM t", ", s.t AS u", " WHERE 1 = 1"),
		{name: "nest", valid: true, text: "SELECT * FROM t WHERE x = ((1))", nest: func(d int) string {
			return "SELECT * FROM t WHERE x = " + strings.Repeat("(", d) + "1" + strings.Repeat(")", d)
		}},
		{name: "nest-select", valid: true, text: "SELECT * FROM (SELECT * FROM t)", nest: func(d int) string {
			return strings.Repeat("SELECT * FROM (", d) + "SELECT * FROM t" + strings.Repeat(")", d)
		}},
		{name: "nest-not", valid: true, text: "SELECT * FROM t WHERE NOT NOT a", nest: func(d int) string {
			return "SELECT * FROM t WHERE " + strings.Repeat("NOT ", d) + "a"
		}},
		{name: "empty", valid: false, text: ""},
		{name: "unterminated-string", valid: false, text: "SELECT a, b FROM t WHERE a = 'never closed AND b = 2"},
		{name: "bad-char", valid: false, text: "SELECT a FROM t; SELECT b FROM u"},
		{name: "non-ascii-ident", valid: false, text: "SELECT größe FROM t WHERE a = 1"},
		{name: "missing-table", valid: false, text: "SELECT * FROM WHERE a = 1"},
		{name: "dangling-comma", valid: false, text: "SELECT a, FROM t WHERE a = 1"},
		{name: "unbalanced", valid: false, text: "SELECT * FROM t WHERE x = ((1) AND y = 2"},
	},
}

// ---------------------------------------------------------------------------------------------
// ex-graphql (_examples/graphql): simple stateful lexer, Elide, UseLookahead(2)
// ---------------------------------------------------------------------------------------------

func exgRules() []lexer.SimpleRule {
	return []lexer.SimpleRule{
		{Name: "Comment", Pattern: `(?:#|//)[^\n]*\n?`},
		{Name: "Ident", Pattern: `[a-zA-Z]\w*`},
		{Name: "Number", Pattern: `(?:\d*\.)?\d+`},
		{Name: "Punct", Pattern: `[-[!@#$%^&*()+_={}\|:;"'<,>.?/]|]`},
		{Name: "Whitespace", Pattern: `[ \t\n\r]+`},
	}
}

type exgFile struct {
	Entries []*exgEntry `@@*`
}

type exgEntry struct {
	Type   *exgType   `  @@`
	Schema *exgSchema `| @@`
	Enum   *exgEnum   `| @@`
	Scalar string     `| "scalar" @Ident`
}

type exgEnum struct {
	Name  string   `"enum" @Ident`
	Cases []string `"{" @Ident* "}"`
}

type exgSchema struct {
	Fields []*exgField `"schema" "{" @@* "}"`
}

type exgType struct {
	Name       string      `"type" @Ident`
	Implements string      `( "implements" @Ident )?`
	Fields     []*exgField `"{" @@* "}"`
}

type exgField struct {
	Name       string         `@Ident`
	Arguments  []*exgArgument `( "(" ( @@ ( "," @@ )* )? ")" )?`
	Type       *exgTypeRef    `":" @@`
	Annotation string         `( "@" @Ident )?`
}

type exgArgument struct {
	Name    string      `@Ident`
	Type    *exgTypeRef `":" @@`
	Default *exgValue   `( "=" @@ )?`
}

type exgTypeRef struct {
	Array       *exgTypeRef `(   "[" @@ "]"`
	Type        string      `  | @Ident )`
	NonNullable bool        `@"!"?`
}

type exgValue struct {
	Symbol string `@Ident`
}

const exgSample = `# A comment.
type Tweet {
    id: ID!
    # The tweet text. No more than 140 characters!
    body: String
    # When the tweet was published
    date: Date
    # Who published the tweet
    Author: User
    # Views, retweets, likes, etc
    Stats: Stat
}

type User {
    id: ID!
    username: String
    first_name: String
    last_name: String
    full_name: String
    name: String @deprecated
    avatar_url: Url
}

type Stat {
    views: Int
    likes: Int
    retweets: Int
    responses: Int
}

type Notification {
    id: ID
    date: Date
    type: String
}

type Meta {
    count: Int
}

scalar Url
scalar Date

type Query {
    Tweet(id: ID!): Tweet
    Tweets(limit: Int, skip: Int, sort_field: String, sort_order: String): [Tweet]
    TweetsMeta: Meta
    User(id: ID!): User
    Notifications(limit: Int): [Notification]
    NotificationsMeta: Meta
}

type Mutation {
    createTweet (
        body: String
    ): Tweet
    deleteTweet(id: ID!): Tweet
    markTweetRead(id: ID!): Boolean
}`

var worldExGraphQL = &world{
	name: "ex-graphql", lexerKind: "stateful", junk: "",
	build: func(o buildOpts) PH {
		opts := applyCommon(o, lexer.MustSimple(exgRules()), nil)
		if o.lookahead == 0 {
			opts = append(opts, participle.UseLookahead(2))
		}
		return mustPH[exgFile]([]string{"Comment", "Whitespace"}, opts...)
	},
	docs: []doc{
		{name: "sample", valid: true, text: exgSample},
		{name: "schema-enum", valid: true, text: "# commentaire: zażółć gęślą jaźń ✓\r\nschema { query: Query mutation: Mutation }\r\nenum Role { ADMIN USER } // 役割 ☃\ntype Admin implements User {\n\troles(first: Int = ten, tags: [[String!]!]): [Role!]! @deprecated\n\tnoargs(): Int\n}\nscalar Date // trailing comment without newline"},
		flatDoc("flat-fields", "type T {\n", "  f: Int!\n", "}\n"),
		flatDoc("flat-cases", "enum E { A", " B", " }"),
		flatDoc("flat-entries", "", "scalar S # ü\n", "type T { }"),
		flatDoc("flat-args", "type T { f(a: Int", ", b: [ID] = x", "): Int }"),
		{name: "nest", valid: true, text: "type T { f: [[Int]] }", nest: func(d int) string {
			return "type T { f: " + strings.Repeat("[", d) + "Int" + strings.Repeat("]!", d) + " }"
		}},
		{name: "empty", valid: true, text: ""},
		{name: "only-comment", valid: true, text: "# nothing here"},
		{name: "bad-char", valid: false, text: "type Tweet {\n  id: ID!\n  body: ~String\n}\n"},
		{name: "non-ascii-ident", valid: false, text: "type Tweet {\n  id: ID!\n  größe: Int\n}\n"},
		{name: "missing-colon", valid: false, text: "type Tweet {\n  id: ID!\n  body String\n}\n"},
		{name: "unclosed", valid: false, text: "type Tweet {\n  id: ID!\n\nscalar Date\n"},
	},
}

// ---------------------------------------------------------------------------------------------
// ex-protobuf (_examples/protobuf): default text/scanner lexer, UseLookahead(2), a Parseable
// ---------------------------------------------------------------------------------------------

type expbProto struct {
	Pos lexer.Position

	Entries []*expbEntry `( @@ ";"* )*`
}

type expbEntry struct {
	Pos lexer.Position

	Syntax  string       `  "syntax" "=" @String`
	Package string       `| "package" @(Ident ( "." Ident )*)`
	Import  string       `| "import" @String`
	Message *expbMessage `| @@`
	Service *expbService `| @@`
	Enum    *expbEnum    `| @@`
	Option  *expbOption  `| "option" @@`
	Extend  *expbExtend  `| @@`
}

type expbOption struct {
	Pos lexer.Position

	Name  string     `( "(" @Ident @( "." Ident )* ")" | @Ident @( "." @Ident )* )`
	Attr  *string    `( "." @Ident ( "." @Ident )* )?`
	Value *expbValue `"=" @@`
}

type expbValue struct {
	Pos lexer.Position

	String    *string    `  @String`
	Number    *float64   `| @Float`
	Int       *int64     `| @Int`
	Bool      *bool      `| (@"true" | "false")`
	Reference *string    `| @Ident @( "." Ident )*`
	Map       *expbMap   `| @@`
	Array     *expbArray `| @@`
}

type expbArray struct {
	Pos lexer.Position

	Elements []*expbValue `"[" ( @@ ( ","? @@ )* )? "]"`
}

type expbMap struct {
	Pos lexer.Position

	Entries []*expbMapEntry `"{" ( @@ ( ( "," )? @@ )* )? "}"`
}

type expbMapEntry struct {
	Pos lexer.Position

	Key   *expbValue `@@`
	Value *expbValue `":"? @@`
}

type expbExtensions struct {
	Pos lexer.Position

	Extensions []expbRange `"extensions" @@ ( "," @@ )*`
}

type expbReserved struct {
	Pos lexer.Position

	Reserved []expbRange `"reserved" @@ ( "," @@ )*`
}

type expbRange struct {
	Ident string `  @String`
	Start int    `| ( @Int`
	End   *int   `  ( "to" ( @Int`
	Max   bool   `           | @"max" ) )? )`
}

type expbExtend struct {
	Pos lexer.Position

	Reference string       `"extend" @Ident ( "." @Ident )*`
	Fields    []*expbField `"{" ( @@ ";"? )* "}"`
}

type expbService struct {
	Pos lexer.Position

	Name  string              `"service" @Ident`
	Entry []*expbServiceEntry `"{" ( @@ ";"? )* "}"`
}

type expbServiceEntry struct {
	Pos lexer.Position

	Option *expbOption `  "option" @@`
	Method *expbMethod `| @@`
}

type expbMethod struct {
	Pos lexer.Position

	Name              string        `"rpc" @Ident`
	StreamingRequest  bool          `"(" @"stream"?`
	Request           *expbType     `    @@ ")"`
	StreamingResponse bool          `"returns" "(" @"stream"?`
	Response          *expbType     `              @@ ")"`
	Options           []*expbOption `( "{" ( "option" @@ ";" )* "}" )?`
}

type expbEnum struct {
	Pos lexer.Position

	Name   string           `"enum" @Ident`
	Values []*expbEnumEntry `"{" ( @@ ( ";" )* )* "}"`
}

type expbEnumEntry struct {
	Pos lexer.Position

	Value  *expbEnumValue `  @@`
	Option *expbOption    `| "option" @@`
}

type expbEnumValue struct {
	Pos lexer.Position

	Key   string `@Ident`
	Value int    `"=" @( [ "-" ] Int )`

	Options []*expbOption `( "[" @@ ( "," @@ )* "]" )?`
}

type expbMessage struct {
	Pos lexer.Position

	Name    string              `"message" @Ident`
	Entries []*expbMessageEntry `"{" @@* "}"`
}

type expbMessageEntry struct {
	Pos lexer.Position

	Enum       *expbEnum       `( @@`
	Option     *expbOption     ` | "option" @@`
	Message    *expbMessage    ` | @@`
	Oneof      *expbOneof      ` | @@`
	Extend     *expbExtend     ` | @@`
	Reserved   *expbReserved   ` | @@`
	Extensions *expbExtensions ` | @@`
	Field      *expbField      ` | @@ ) ";"*`
}

type expbOneof struct {
	Pos lexer.Position

	Name    string            `"oneof" @Ident`
	Entries []*expbOneofEntry `"{" ( @@ ";"* )* "}"`
}

type expbOneofEntry struct {
	Pos lexer.Position

	Field  *expbField  `  @@`
	Option *expbOption `| "option" @@`
}

type expbField struct {
	Pos lexer.Position

	Optional bool `(   @"optional"`
	Required bool `  | @"required"`
	Repeated bool `  | @"repeated" )?`

	Type *expbType `@@`
	Name string    `@Ident`
	Tag  int       `"=" @Int`

	Options []*expbOption `( "[" @@ ( "," @@ )* "]" )?`
}

type expbScalar int

const (
	expbNone expbScalar = iota
	expbDouble
	expbFloat
	expbInt32
	expbInt64
	expbUint32
	expbUint64
	expbSint32
	expbSint64
	expbFixed32
	expbFixed64
	expbSFixed32
	expbSFixed64
	expbBool
	expbString
	expbBytes
)

var expbStringToScalar = map[string]expbScalar{
	"double": expbDouble, "float": expbFloat, "int32": expbInt32, "int64": expbInt64, "uint32": expbUint32, "uint64": expbUint64,
	"sint32": expbSint32, "sint64": expbSint64, "fixed32": expbFixed32, "fixed64": expbFixed64, "sfixed32": expbSFixed32,
	"sfixed64": expbSFixed64, "bool": expbBool, "string": expbString, "bytes": expbBytes,
}

func (s *expbScalar) Parse(lex *lexer.PeekingLexer) error {
	token := lex.Peek()
	v, ok := expbStringToScalar[token.Value]
	if !ok {
		return participle.NextMatch
	}
	lex.Next()
	*s = v
	return nil
}

type expbType struct {
	Pos lexer.Position

	Scalar    expbScalar   `  @@`
	Map       *expbMapType `| @@`
	Reference string       `| @(Ident ( "." Ident )*)`
}

type expbMapType struct {
	Pos lexer.Position

	Key   *expbType `"map" "<" @@`
	Value *expbType `"," @@ ">"`
}

const expbSample = `syntax = "proto3";

package test.test;

message SearchRequest {
  string query = 1;
  int32 page_number = 2;
  int32 result_per_page = 3;
  map<string, double> scores = 4;

  message Foo {}

  enum Bar {
    FOO = 0;
  }
}

message SearchResponse {
  string results = 1;
}

enum Type {
  INT = 0;
  DOUBLE = 1;
}

service SearchService {
  rpc Search(SearchRequest) returns (SearchResponse);
}`

const expbFull = `// everything else the grammar knows: zażółć gęślą jaźń ✓
syntax = "proto2";
import "other.proto";
option java_package = "com.example.ünï";
option (my.opt).attr = { a: 1 b: "x", c: [1, 2.5 true] };
message Outer {
  option deprecated = true;
  required int32 id = 1 [default = 5, (x.y) = "z"];
  optional Inner.Deep ref = 2;
  repeated string tags = 3;;
  oneof kind { string name = 4; bytes raw = 5; option a = 1; }
  reserved 6, 7 to 9, "old";
  extensions 100 to max;
  extend Foo { optional int32 bar = 126; }
  enum E { option allow_alias = true; A = 0; B = -1 [deprecated = true]; }
  map<string, map<int32, Outer>> nested = 10;
}
/* block
   comment */
service S {
  option x = 1;
  rpc Get (stream Req) returns (stream a.b.Resp) { option y = 2; }
  rpc Put (Req) returns (Resp) {}
}
extend Foo.Bar { optional int32 baz = 127 }
`

var worldExProtobuf = &world{
	name: "ex-protobuf", lexerKind: "text/scanner", junk: "",
	build: func(o buildOpts) PH {
		opts := applyCommon(o, nil, nil)
		if o.lookahead == 0 {
			opts = append(opts, participle.UseLookahead(2))
		}
		return mustPH[expbProto](nil, opts...)
	},
	docs: []doc{
		{name: "sample", valid: true, text: expbSample},
		{name: "full", valid: true, text: expbFull},
		{name: "unicode", valid: true, text: "package größe.名前;\r\nmessage Nachricht { string schlüssel = 1 [doc = \"zażółć ✓\"]; } // käse ☃\r\n"},
		flatDoc("flat-fields", "message M {\n", "  int32 f = 1;\n", "}\n"),
		flatDoc("flat-values", "enum E { A = 0;", " B = 1;", " }"),
		flatDoc("flat-semis", "package a.b;", ";", " import \"x\";"),
		flatDoc("flat-messages", "", "message M { }\n", ""),
		flatDoc("flat-array", "option o = [0", ", 1", "];"),
		{name: "nest", valid: true, text: "message M { message M { } }", nest: func(d int) string {
			return strings.Repeat("message M { ", d) + strings.Repeat("} ", d)
		}},
		{name: "nest-map", valid: true, text: "option o = {a: {a: 1}};", nest: func(d int) string {
			return "option o = " + strings.Repeat("{a: ", d) + "1" + strings.Repeat("}", d) + ";"
		}},
		{name: "nest-maptype", valid: true, text: "message M { map<int32, map<int32, bool>> f = 1; }", nest: func(d int) string {
			return "message M { " + strings.Repeat("map<int32, ", d) + "bool" + strings.Repeat(">", d) + " f = 1; }"
		}},
		{name: "empty", valid: true, text: ""},
		{name: "unterminated-string", valid: false, text: "syntax = \"proto3;\nmessage M { }\n"},
		{name: "unterminated-comment", valid: false, text: "message M { }\n/* never closed\nmessage N { }\n"},
		{name: "missing-name", valid: false, text: "message M {\n  string = 1;\n  int32 x = 2;\n}\n"},
		{name: "missing-tag", valid: false, text: "message M {\n  string s;\n}\n"},
		{name: "unclosed", valid: false, text: "message M {\n  string s = 1;\nmessage N { }\n"},
	},
}

// ---------------------------------------------------------------------------------------------
// ex-microc (_examples/microc): simple stateful lexer, UseLookahead(2)
//
// The grammar needs its lookahead of 2 for scalar declarations and scalar parameters ("int i;"
// is tried as an array declaration first, which fails two tokens in), so the example's sample
// program is not a document here; the documents only declare arrays.
// ---------------------------------------------------------------------------------------------

func exmcRules() []lexer.SimpleRule {
	return []lexer.SimpleRule{
		{Name: "comment", Pattern: `//.*|/\*.*?\*/`},
		{Name: "whitespace", Pattern: `\s+`},

		{Name: "Type", Pattern: `\b(int|char)\b`},
		{Name: "Ident", Pattern: `\b([a-zA-Z_][a-zA-Z0-9_]*)\b`},
		{Name: "Punct", Pattern: `[-,()*/+%{};&!=:<>]|\[|\]`},
		{Name: "Int", Pattern: `\d+`},
	}
}

type exmcProgram struct {
	Pos lexer.Position

	TopDec []*exmcTopDec `@@*`
}

type exmcTopDec struct {
	Pos lexer.Position

	FunDec *exmcFunDec `  @@`
	VarDec *exmcVarDec `| @@ ";"`
}

type exmcVarDec struct {
	Pos lexer.Position

	ArrayDec  *exmcArrayDec  `  @@`
	ScalarDec *exmcScalarDec `| @@`
}

type exmcScalarDec struct {
	Pos lexer.Position

	Type string `@Type`
	Name string `@Ident`
}

type exmcArrayDec struct {
	Pos  lexer.Position
	Type string `@Type`
	Name string `@Ident`
	Size int    `"[" @Int "]"`
}

type exmcReturnStmt struct {
	Pos lexer.Position

	Result *exmcExpr `"return" @@?`
}

type exmcWhileStmt struct {
	Pos lexer.Position

	Condition *exmcExpr `"while" "(" @@ ")"`
	Body      *exmcStmt `@@`
}

type exmcIfStmt struct {
	Pos lexer.Position

	Condition *exmcExpr `"if" "(" @@ ")"`
	Body      *exmcStmt `@@`
	Else      *exmcStmt `("else" @@)?`
}

type exmcStmts struct {
	Pos lexer.Position

	Stmts []*exmcStmt `@@*`
}

type exmcStmt struct {
	Pos lexer.Position

	IfStmt     *exmcIfStmt     `  @@`
	ReturnStmt *exmcReturnStmt `| @@`
	WhileStmt  *exmcWhileStmt  `| @@`
	Block      *exmcStmts      `| "{" @@ "}"`
	Expr       *exmcExpr       `| @@`
	Empty      bool            `| @";"`
}

type exmcFunBody struct {
	Pos lexer.Position

	Locals []*exmcVarDec `(@@ ";")*`
	Stmts  *exmcStmts    `@@`
}

type exmcFunDec struct {
	Pos lexer.Position

	ReturnType string           `@(Type | "void")`
	Name       string           `@Ident`
	Parameters []*exmcParameter `"(" ((@@ ("," @@)*) | "void") ")"`
	FunBody    *exmcFunBody     `(";" | "{" @@ "}")`
}

type exmcParameter struct {
	Pos lexer.Position

	Array  *exmcArrayParameter `  @@`
	Scalar *exmcScalarDec      `| @@`
}

type exmcArrayParameter struct {
	Pos lexer.Position

	Type  string `@Type`
	Ident string `@Ident "[" "]"`
}

type exmcExpr struct {
	Pos lexer.Position

	Assignment *exmcAssignment `@@`
}

type exmcAssignment struct {
	Pos lexer.Position

	Equality *exmcEquality `@@`
	Op       string        `( @"="`
	Next     *exmcEquality `  @@ )?`
}

type exmcEquality struct {
	Pos lexer.Position

	Comparison *exmcComparison `@@`
	Op         string          `[ @( "!" "=" | "=" "=" )`
	Next       *exmcEquality   `  @@ ]`
}

type exmcComparison struct {
	Pos lexer.Position

	Addition *exmcAddition   `@@`
	Op       string          `[ @( ">" "=" | ">" | "<" "=" | "<" )`
	Next     *exmcComparison `  @@ ]`
}

type exmcAddition struct {
	Pos lexer.Position

	Multiplication *exmcMultiplication `@@`
	Op             string              `[ @( "-" | "+" )`
	Next           *exmcAddition       `  @@ ]`
}

type exmcMultiplication struct {
	Pos lexer.Position

	Unary *exmcUnary          `@@`
	Op    string              `[ @( "/" | "*" )`
	Next  *exmcMultiplication `  @@ ]`
}

type exmcUnary struct {
	Pos lexer.Position

	Op      string       `  ( @( "!" | "-" )`
	Unary   *exmcUnary   `    @@ )`
	Primary *exmcPrimary `| @@`
}

type exmcPrimary struct {
	Pos lexer.Position

	Number        *int            `  @Int`
	ArrayIndex    *exmcArrayIndex `| @@`
	CallFunc      *exmcCallFunc   `| @@`
	Ident         string          `| @Ident`
	SubExpression *exmcExpr       `| "(" @@ ")" `
}

type exmcArrayIndex struct {
	Pos lexer.Position

	Ident string      `@Ident`
	Index []*exmcExpr `("[" @@ "]")+`
}

type exmcCallFunc struct {
	Pos lexer.Position

	Ident string      `@Ident`
	Index []*exmcExpr `"(" (@@ ("," @@)*)? ")"`
}

// the example's sample program: parses only with a lookahead of at least 2
const exmcSample = `
/* This is an example uC program. */
void putint(int i);

int fac(int n)
{
    if (n < 2)
        return n;
    return n * fac(n - 1);
}

int sum(int n, int a[])
{
    int i;
    int s;

    i = 0;
    s = 0;
    while (i <= n) {
        s = s + a[i];
        i = i + 1;
    }
    return s;
}

int main(void)
{
    int a[2];

    a[0] = fac(5);
    a[1] = 27;
    putint(sum(2, a)); // prints 147
    return 0;
}
`

// the sample rewritten so that it parses under every lookahead: scalars become one-element arrays
const exmcArrays = `
/* This is an example uC program, with arrays only. */
void putint(int i[]);

int fac(int n[])
{
    int m[1];
    if (n[0] < 2)
        return n[0];
    m[0] = n[0] - 1;
    return n[0] * fac(m);
}

int sum(int n[], int a[])
{
    int i[1];
    int s[1];

    i[0] = 0;
    s[0] = 0;
    while (i[0] <= n[0]) {
        s[0] = s[0] + a[i[0]];
        i[0] = i[0] + 1;
    }
    return s[0];
}

int main(void)
{
    int a[2];
    char c[1];

    a[0] = fac(a);
    a[1] = 27;
    if (!(a[0] == a[1])) { ; } else c[0] = -a[1] / 3 * 2;
    putint(sum(a, a)); // prints: zażółć ✓
    return 0;
}
`

var worldExMicroC = &world{
	name: "ex-microc", lexerKind: "stateful", junk: "",
	build: func(o buildOpts) PH {
		opts := applyCommon(o, lexer.MustSimple(exmcRules()), nil)
		if o.lookahead == 0 {
			opts = append(opts, participle.UseLookahead(2))
		}
		return mustPH[exmcProgram](nil, opts...)
	},
	docs: []doc{
		{name: "arrays", valid: true, text: exmcArrays},
		{name: "prototypes", valid: true, text: "void f(void); /* ünï ☃ */ int g(char s[], int n[]);\r\nchar h(void) { return 1 != 2; } // end"},
		flatDoc("flat-stmts", "void f(void) {\n", "  g(1, 2);\n", "}\n"),
		flatDoc("flat-funcs", "", "int f(void);\n", ""),
		flatDoc("flat-locals", "void f(void) {\n", "  int a[3];\n", "  return;\n}\n"),
		flatDoc("flat-args", "void f(void) { g(0", ", 1", "); }"),
		{name: "nest", valid: true, text: "void f(void) { return ((1)); }", nest: func(d int) string {
			return "void f(void) { return " + strings.Repeat("(", d) + "1" + strings.Repeat(")", d) + "; }"
		}},
		{name: "nest-block", valid: true, text: "void f(void) { { { } } }", nest: func(d int) string {
			return "void f(void) { " + strings.Repeat("{ ", d) + strings.Repeat("} ", d) + "}"
		}},
		{name: "nest-unary", valid: true, text: "void f(void) { return - - 1; }", nest: func(d int) string {
			return "void f(void) { return " + strings.Repeat("- ", d) + "1; }"
		}},
		{name: "empty", valid: true, text: ""},
		{name: "only-comment", valid: true, text: "/* nothing */ // here"},
		{name: "bad-char", valid: false, text: "void f(void) {\n  g(1) ? 2;\n}\n"},
		{name: "unterminated-comment", valid: false, text: "void f(void) {\n  /* never closed\n  return;\n}\n"},
		{name: "statements-need-no-semicolon", valid: true, text: "void f(void) {\n  g(1)\n  return;\n}\n"},
		{name: "dangling-comma", valid: false, text: "void f(void) {\n  g(1, );\n  return;\n}\n"},
		{name: "dangling-op", valid: false, text: "int f(void) {\n  return 1 + ;\n}\nint g(void);\n"},
		{name: "unclosed", valid: false, text: "void f(void) {\n  while (1) { g(1);\n}\n"},
	},
}

// ---------------------------------------------------------------------------------------------
// ex-thrift (_examples/thrift): the runtime rules of the example's lexer (not the generated
// lexer file), Unquote(), Elide("Whitespace") (comments are lexed but NOT elided)
// ---------------------------------------------------------------------------------------------

func exthRules() []lexer.SimpleRule {
	return []lexer.SimpleRule{
		{Name: "Number", Pattern: `\d+`},
		{Name: "Ident", Pattern: `\w+`},
		{Name: "String", Pattern: `"[^"]*"`},
		{Name: "Whitespace", Pattern: `\s+`},
		{Name: "Punct", Pattern: `[,.<>(){}=:]`},
		{Name: "Comment", Pattern: `//.*`},
	}
}

type exthNamespace struct {
	Pos       lexer.Position
	Language  string `"namespace" @Ident`
	Namespace string `@Ident ( @"." @Ident )*`
}

type exthType struct {
	Pos     lexer.Position
	Name    string    `@Ident ( @"." @Ident )*`
	TypeOne *exthType `( "<" @@ ( ","`
	TypeTwo *exthType `           @@ )? ">" )?`
}

type exthAnnotation struct {
	Pos   lexer.Position
	Key   string       `@Ident ( @"." @Ident )*`
	Value *exthLiteral `( "=" @@ )?`
}

type exthField struct {
	Pos         lexer.Position
	ID          string            `@Number ":"`
	Requirement string            `@( "optional" | "required" )?`
	Type        *exthType         `@@`
	Name        string            `@Ident`
	Default     *exthLiteral      `( "=" @@ )?`
	Annotations []*exthAnnotation `( "(" @@ ( "," @@ )* ")" )? ";"?`
}

type exthException struct {
	Pos         lexer.Position
	Name        string            `"exception" @Ident "{"`
	Fields      []*exthField      `@@ @@* "}"`
	Annotations []*exthAnnotation `( "(" @@ ( "," @@ )* ")" )?`
}

type exthStruct struct {
	Pos         lexer.Position
	Union       bool              `( "struct" | @"union" )`
	Name        string            `@Ident "{"`
	Fields      []*exthField      `@@* "}"`
	Annotations []*exthAnnotation `( "(" @@ ( "," @@ )* ")" )?`
}

type exthArgument struct {
	Pos  lexer.Position
	ID   string    `@Number ":"`
	Type *exthType `@@`
	Name string    `@Ident`
}

type exthThrow struct {
	Pos  lexer.Position
	ID   string    `@Number ":"`
	Type *exthType `@@`
	Name string    `@Ident`
}

type exthMethod struct {
	Pos         lexer.Position
	ReturnType  *exthType         `@@`
	Name        string            `@Ident`
	Arguments   []*exthArgument   `"(" ( @@ ( "," @@ )* )? ")"`
	Throws      []*exthThrow      `( "throws" "(" @@ ( "," @@ )* ")" )?`
	Annotations []*exthAnnotation `( "(" @@ ( "," @@ )* ")" )?`
}

type exthService struct {
	Pos         lexer.Position
	Name        string            `"service" @Ident`
	Extends     string            `( "extends" @Ident ( @"." @Ident )* )?`
	Methods     []*exthMethod     `"{" ( @@ ";"? )* "}"`
	Annotations []*exthAnnotation `( "(" @@ ( "," @@ )* ")" )?`
}

// Literal is a "union" type, where only one matching value will be present.
type exthLiteral struct {
	Pos       lexer.Position
	Str       *string        `  @String`
	Number    *float64       `| @Number`
	Bool      *string        `| @( "true" | "false" )`
	Reference *string        `| @Ident ( @"." @Ident )*`
	Minus     *exthLiteral   `| "-" @@`
	List      []*exthLiteral `| "[" ( @@ ","? )* "]"`
	Map       []*exthMapItem `| "{" ( @@ ","? )* "}"`
}

type exthMapItem struct {
	Pos   lexer.Position
	Key   *exthLiteral `@@ ":"`
	Value *exthLiteral `@@`
}

type exthCase struct {
	Pos         lexer.Position
	Name        string            `@Ident`
	Annotations []*exthAnnotation `( "(" @@ ( "," @@ )* ")" )?`
	Value       *exthLiteral      `( "=" @@ )? ( "," | ";" )?`
}

type exthEnum struct {
	Pos         lexer.Position
	Name        string            `"enum" @Ident "{"`
	Cases       []*exthCase       `@@* "}"`
	Annotations []*exthAnnotation `( "(" @@ ( "," @@ )* ")" )?`
}

type exthTypedef struct {
	Pos  lexer.Position
	Type *exthType `"typedef" @@`
	Name string    `@Ident`
}

type exthConst struct {
	Pos   lexer.Position
	Type  *exthType    `"const" @@`
	Name  string       `@Ident`
	Value *exthLiteral `"=" @@ ";"?`
}

type exthEntry struct {
	Pos        lexer.Position
	Includes   []string         `  "include" @String`
	Namespaces []*exthNamespace `| @@`
	Structs    []*exthStruct    `| @@`
	Exceptions []*exthException `| @@`
	Services   []*exthService   `| @@`
	Enums      []*exthEnum      `| @@`
	Typedefs   []*exthTypedef   `| @@`
	Consts     []*exthConst     `| @@`
}

// Thrift files consist of a set of top-level directives and definitions.
type exthThrift struct {
	Pos     lexer.Position
	Entries []*exthEntry `@@*`
}

const exthSample = `namespace cpp thrift.example
namespace java thrift.example

enum TweetType {
    TWEET
    RETWEET = 2
    DM = 3
    REPLY
}

struct Location {
    1: required double latitude
    2: required double longitude
}

struct Tweet {
    1: required i32 userId
    2: required string userName
    3: required string text
    4: optional Location loc
    5: optional TweetType tweetType = TweetType.TWEET
    16: optional string language = "english"
}

typedef list<Tweet> TweetList

struct TweetSearchResult {
    1: TweetList tweets
}

exception TwitterUnavailable {
    1: string message
}

const i32 MAX_RESULTS = 100

service Twitter {
    void ping()
    bool postTweet(1:Tweet tweet) throws (1:TwitterUnavailable unavailable)
    TweetSearchResult searchTweets(1:string query)
    void zip()
}`

var worldExThrift = &world{
	name: "ex-thrift", lexerKind: "stateful", junk: "",
	build: func(o buildOpts) PH {
		opts := applyCommon(o, lexer.MustSimple(exthRules()), nil)
		opts = append(opts, participle.Unquote())
		return mustPH[exthThrift]([]string{"Whitespace"}, opts...)
	},
	docs: []doc{
		{name: "sample", valid: true, text: exthSample},
		{name: "annotated", valid: true, text: "include \"shared.thrift\"\r\nconst string GREETING = \"zażółć gęślą jaźń ✓\"\r\nconst map<string, list<i32>> TABLE = {\"名前\": 1, \"b\": {2: true, x.y: false}}\nunion U { 1: i32 a (go.tag = \"x\", deprecated) 2: optional shared.T b = shared.DEFAULT }\nenum E { A (doc = \"☃\") = 1, B, C = 3 } (final)\nservice S extends shared.Base { map<i32, string> get(1: i32 id, 2: set<string> keys) throws (1: Err e) (idempotent) } (version = 2)\nexception Err { 1: string why } (retriable)\n"},
		flatDoc("flat-fields", "struct S {\n", "  1: required i32 f\n", "}\n"),
		flatDoc("flat-cases", "enum E { A", ", B = 2", " }"),
		flatDoc("flat-methods", "service S {\n", "  void ping(1: i32 n)\n", "}\n"),
		flatDoc("flat-entries", "", "typedef i32 T\n", ""),
		{name: "nest", valid: true, text: "typedef list<list<i32>> T", nest: func(d int) string {
			return "typedef " + strings.Repeat("list<", d) + "i32" + strings.Repeat(">", d) + " T"
		}},
		{name: "nest-map", valid: true, text: "const M X = {1: {1: 2}}", nest: func(d int) string {
			return "const M X = " + strings.Repeat("{1: ", d) + "2" + strings.Repeat("}", d)
		}},
		{name: "empty", valid: true, text: ""},
		{name: "comment", valid: false, text: "// comments are lexed but not elided\nstruct S { }\n"},
		{name: "semicolon", valid: false, text: "struct S {\n  1: string a;\n  2: string b;\n}\n"},
		{name: "unterminated-string", valid: false, text: "include \"a.thrift\"\ninclude \"never closed\nstruct S { }\n"},
		{name: "missing-colon", valid: false, text: "struct S {\n  1: string a\n  2 string b\n}\n"},
		{name: "empty-exception", valid: false, text: "exception E { }\nstruct S { }\n"},
	},
}

// ---------------------------------------------------------------------------------------------
// ex-jsonpath (_examples/jsonpath): default text/scanner lexer, no options at all
// ---------------------------------------------------------------------------------------------

type exjpPathExpr struct {
	Parts []exjpPart `@@ ( "." @@ )*`
}

type exjpPart struct {
	Obj string    `@Ident`
	Acc []exjpAcc `("[" @@ "]")*`
}

type exjpAcc struct {
	Name  *string `@(String|Char|RawString)`
	Index *int    `| @Int`
}

var worldExJSONPath = &world{
	name: "ex-jsonpath", lexerKind: "text/scanner", junk: "",
	build: func(o buildOpts) PH {
		opts := applyCommon(o, nil, nil)
		return mustPH[exjpPathExpr](nil, opts...)
	},
	docs: []doc{
		{name: "sample", valid: true, text: `check_run.check_suite.pull_requests[0].url`},
		{name: "named", valid: true, text: "repository[\"owner\"][`login`]['x'] . größe[\"zażółć ✓\"][12] // 名前\n.名前"},
		flatDoc("flat-parts", "a", ".b", ""),
		flatDoc("flat-indexes", "a", "[0]", ".b"),
		flatDoc("flat-both", "a[1]", ".b[\"k\"][2]", ""),
		{name: "empty", valid: false, text: ""},
		{name: "unterminated-string", valid: false, text: "a.b[\"never closed].c"},
		{name: "long-char", valid: false, text: "a.b['key'].c"},
		{name: "double-dot", valid: false, text: "a.b..c"},
		{name: "ident-index", valid: false, text: "a.b[c].d"},
		{name: "huge-index", valid: false, text: "a[99999999999999999999].b"},
	},
}

// ---------------------------------------------------------------------------------------------
// all example worlds and their lexer definitions
// ---------------------------------------------------------------------------------------------

var exampleWorlds = []*world{
	worldExJSON, worldExTOML, worldExHCL, worldExSQL, worldExGraphQL, worldExProtobuf,
	worldExMicroC, worldExThrift, worldExJSONPath,
}

var exampleLexDefs = []*lexDef{
	{name: "ex-json-lexer", build: func() lexer.Definition { return lexer.MustSimple(exjRules()) },
		corpus: exDocTexts(worldExJSON.docs)},
	{name: "ex-toml-lexer", build: func() lexer.Definition { return lexer.MustSimple(extRules()) },
		corpus: exDocTexts(worldExTOML.docs)},
	{name: "ex-hcl-lexer", build: func() lexer.Definition { return lexer.NewTextScannerLexer(nil) },
		corpus: exDocTexts(worldExHCL.docs)},
	{name: "ex-sql-lexer", build: func() lexer.Definition { return lexer.MustSimple(exqRules()) },
		corpus: exDocTexts(worldExSQL.docs)},
	{name: "ex-graphql-lexer", build: func() lexer.Definition { return lexer.MustSimple(exgRules()) },
		corpus: exDocTexts(worldExGraphQL.docs)},
	{name: "ex-protobuf-lexer", build: func() lexer.Definition { return lexer.NewTextScannerLexer(nil) },
		corpus: exDocTexts(worldExProtobuf.docs)},
	{name: "ex-microc-lexer", build: func() lexer.Definition { return lexer.MustSimple(exmcRules()) },
		corpus: exDocTexts(worldExMicroC.docs, exmcSample)},
	{name: "ex-thrift-lexer", build: func() lexer.Definition { return lexer.MustSimple(exthRules()) },
		corpus: exDocTexts(worldExThrift.docs)},
	{name: "ex-jsonpath-lexer", build: func() lexer.Definition { return lexer.NewTextScannerLexer(nil) },
		corpus: exDocTexts(worldExJSONPath.docs)},
}
