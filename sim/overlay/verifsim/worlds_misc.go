package main

import (
	"github.com/alecthomas/participle/v2"
	"github.com/alecthomas/participle/v2/lexer"
)

// W-misc: the remaining features of the tag language and of field conversion in one grammar:
// bool and sized integer fields (with overflow), sign coalescing, typed literals, the non-empty
// modifier, a captured []lexer.Token field, an embedded struct, case-insensitive keywords.

type mxFile struct {
	Pos    lexer.Position
	Decls  []*mxDecl `@@*`
	EndPos lexer.Position
	Tokens []lexer.Token
}

type mxMeta struct {
	Export bool   `@"export"?`
	Attr   string `( "#" @Ident )?`
}

type mxDecl struct {
	Pos lexer.Position
	mxMeta
	Kind  string        `@( "var" | "const" )`
	Name  string        `@Ident`
	Type  string        `( ":" @( "int":Ident | "str":Ident | Ident ) )?`
	Opt   bool          `@"?"?`
	Size  uint8         `( "[" @Int "]" )?`
	Dims  []int16       `( "(" @Int ( "," @Int )* ")" )?`
	Val   int           `( "=" @( "-"? Int )`
	Ratio float32       `      | "~" @( Float | Int ) )?`
	Body  []lexer.Token `( "{" @( Ident | Int | "," )* "}" )?`
	Init  mxInit        `( "init" @@ )?`
	Tags  []string      `"<" ( @Ident* )! ">"`
	End   lexer.Token   `@";"`
}

// mxInit is a union whose members are registered as a value (mxInitNum{}) and as a pointer
// (&mxInitList{}, whose marker method has a pointer receiver).
type mxInit interface{ mxinit() }

type mxInitNum struct {
	N int `@Int`
}

func (mxInitNum) mxinit() {}

type mxInitList struct {
	Items []string `"[" @Ident* "]"`
}

func (*mxInitList) mxinit() {}

var worldMisc = &world{
	name: "misc", lexerKind: "text/scanner", junk: " } }",
	build: func(o buildOpts) PH {
		opts := applyCommon(o, nil, nil)
		opts = append(opts, participle.CaseInsensitive("Ident"), participle.Union[mxInit](mxInitNum{}, &mxInitList{}))
		return mustPH[mxFile](nil, opts...)
	},
	altBuild: func(o buildOpts) PH {
		// the same union with its members registered the other way round (value <-> pointer is fixed
		// by the marker methods; the order is the caller's)
		opts := applyCommon(o, nil, nil)
		opts = append(opts, participle.CaseInsensitive("Ident"), participle.Union[mxInit](&mxInitList{}, mxInitNum{}))
		return mustPH[mxFile](nil, opts...)
	},
	docs: []doc{
		{name: "all", valid: true, text: "export #hot var a: int ? [8] = -10 { x, 1, y } <t1 t2>;\nconst B: Str ~ 2.5 <u>;\nVAR c <v>;\n"},
		{name: "unicode", valid: true, text: "var größe: ünï = 7 <π>;\n"},
		flatDoc("flat-decls", "", "var a <t>;", ""),
		flatDoc("flat-body", "var a { x", ", y", " } <t>;"),
		flatDoc("flat-tags", "var a <t", " t", ">;"),
		{name: "empty", valid: true, text: ""},
		{name: "init", valid: true, text: "var a init 5 <t>;\nvar b init [x y z] <t>;\nvar c init [] <t>;"},
		{name: "dims", valid: true, text: "var a (1, 2, 300) <t>;\nconst b [2] (7) = 1 <t>;"},
		{name: "dims-overflow", valid: false, text: "var a (1, 2, 70000) <t>;"},
		{name: "size-overflow", valid: false, text: "var a [300] <t>;"},
		{name: "int-overflow", valid: false, text: "var a = 99999999999999999999 <t>;"},
		{name: "empty-tags", valid: false, text: "var a <>;"},
		{name: "no-end", valid: false, text: "var a <t>"},
		{name: "bad-ratio", valid: false, text: "var a ~ x <t>;"},
	},
}
