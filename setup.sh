#!/bin/sh
# Builds the verification framework from files on disk only (offline).
set -e
export GOFLAGS=-mod=mod GOPROXY=off GOSUMDB=off GOTOOLCHAIN=local
cd "$(dirname "$0")/sim"
mkdir -p ../bin ../evidence ../replays
go build -o ../bin/simcheck ./driver
go build -o ../bin/instr ./instr
# pre-warm the race-instrumented standard library so that the first C09 check does not pay for it
go build -race -o /dev/null ./driver 2>/dev/null || true
go build -race std 2>/dev/null || true
echo "verif setup done"
