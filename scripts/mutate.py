#!/usr/bin/env python3
"""Operator-level mutation sweep: how many small syntactic mutants of the code behind the claimed
properties survive the repository's own tests, and how many of those do the registered checks flag?

  scripts/mutate.py <file relative to /repo> <comma separated properties> [max mutants] [seconds per check]

Every mutant is applied to a scratch git worktree of /repo (never to /repo), must compile, and is
dropped if the repository's test suite fails with it.  Test-surviving mutants are then handed to
the quick checks of the given properties (VERIF_REPO pointing at the worktree).  A mutant that no
check flags is NOT necessarily a miss: many operator mutants do not violate any claimed property
(they change which error is reported, or are equivalent).  Output: one line per mutant and a
summary; results are appended to /verif/mutants/sweep-<file>.tsv.
"""
import os, re, subprocess, sys, random, tempfile, shutil

REPO = "/repo"
ENV = dict(os.environ, GOFLAGS="-mod=mod", GOPROXY="off", GOSUMDB="off", GOTOOLCHAIN="local")

RULES = [
    (r"<=", "<"), (r">=", ">"), (r"(?<![<>=!:+\-*/&|^])<(?![<=\-])", "<="), (r"(?<![<>=!\-])>(?![>=])", ">="),
    (r"==", "!="), (r"!=", "=="), (r"&&", "||"), (r"\|\|", "&&"),
    (r"\+\+", "--"), (r"(?<![+\-])\+ 1\b", "- 1"), (r"(?<![+\-])- 1\b", "+ 1"), (r"\+1\b", "-1"), (r"-1\b", "+1"),
    (r"\btrue\b", "false"), (r"\bfalse\b", "true"),
    (r"\bif !", "if "), (r"\bbreak\b", "continue"), (r"\bcontinue\b", "break"),
    (r"\breturn nil, nil\b", "return nil, err"), (r"\b0\b", "1"), (r"\b1\b", "2"),
]


def sh(cmd, cwd=None, timeout=900):
    try:
        p = subprocess.run(cmd, shell=True, cwd=cwd, env=ENV, capture_output=True, text=True, timeout=timeout)
        return p.returncode, p.stdout + p.stderr
    except subprocess.TimeoutExpired:
        return 124, "timeout"


def candidates(src):
    out = []
    in_block = False
    for ln, line in enumerate(src.split("\n")):
        s = line.strip()
        if s.startswith("/*"):
            in_block = True
        if in_block:
            if "*/" in s:
                in_block = False
            continue
        if not s or s.startswith("//") or s.startswith("import") or s.startswith("package") or "`" in line:
            continue
        code = line.split("//")[0]
        if '"' in code:  # do not touch string literals: strip them for matching
            code_nostr = re.sub(r'"(?:[^"\\]|\\.)*"', lambda m: " " * len(m.group(0)), code)
        else:
            code_nostr = code
        for ri, (pat, rep) in enumerate(RULES):
            for m in re.finditer(pat, code_nostr):
                out.append((ln, m.start(), m.end(), rep, ri))
    return out


def main():
    rel = sys.argv[1]
    props = sys.argv[2].split(",")
    maxm = int(sys.argv[3]) if len(sys.argv) > 3 else 60
    secs = sys.argv[4] if len(sys.argv) > 4 else "8"
    src = open(os.path.join(REPO, rel)).read()
    cands = candidates(src)
    random.Random(12345).shuffle(cands)
    cands = cands[:maxm]
    wt = tempfile.mkdtemp(prefix="mutwt.", dir="/tmp")
    os.rmdir(wt)
    rc, out = sh(f"git -C {REPO} worktree add -q -f {wt} HEAD")
    if rc != 0:
        print(out)
        sys.exit(2)
    tsv = open(f"/verif/mutants/sweep-{rel.replace('/', '_')}.tsv", "a")
    stats = dict(total=0, nocompile=0, killed_by_tests=0, survived_tests=0, flagged=0, unflagged=0)
    lines = src.split("\n")
    try:
        for (ln, a, b, rep, ri) in cands:
            stats["total"] += 1
            orig = lines[ln]
            mutated = orig[:a] + rep + orig[b:]
            new = lines[:ln] + [mutated] + lines[ln + 1:]
            open(os.path.join(wt, rel), "w").write("\n".join(new))
            desc = f"{rel}:{ln+1}: {orig.strip()[:70]!r} -> {mutated.strip()[:70]!r}"
            rc, out = sh("go build ./... && cd cmd/participle && go build ./...", cwd=wt, timeout=300)
            if rc != 0:
                stats["nocompile"] += 1
                continue
            rc, out = sh("go test -vet=off -count=1 -timeout 120s ./...", cwd=wt, timeout=400)
            if rc != 0:
                stats["killed_by_tests"] += 1
                tsv.write(f"tests\t{desc}\n")
                continue
            stats["survived_tests"] += 1
            flagged = []
            for p in props:
                ev = tempfile.mkdtemp(prefix="mutev.", dir="/tmp")
                rc, out = sh(f"VERIF_REPO={wt} VERIF_SECONDS={secs} VERIF_EVIDENCE_DIR={ev} VERIF_REPLAY_DIR={ev} /verif/bin/simcheck {p} quick", timeout=1200)
                shutil.rmtree(ev, ignore_errors=True)
                if rc == 1 and "VIOLATION property=" in out:
                    m = re.search(r"^violation: (.*)$", out, re.M)
                    flagged.append(f"{p}:{m.group(1) if m else '?'}")
                    break
                if rc == 2:
                    flagged.append(f"{p}:exit2")
            real = [f for f in flagged if not f.endswith("exit2")]
            if real:
                stats["flagged"] += 1
                print(f"FLAGGED   {desc}  [{real[0][:90]}]", flush=True)
                tsv.write(f"flagged\t{desc}\t{real[0]}\n")
            else:
                stats["unflagged"] += 1
                print(f"UNFLAGGED {desc}  {flagged}", flush=True)
                tsv.write(f"unflagged\t{desc}\t{flagged}\n")
            tsv.flush()
    finally:
        sh(f"git -C {REPO} worktree remove --force {wt}")
        shutil.rmtree(wt, ignore_errors=True)
    print(f"SUMMARY {rel} props={props} {stats}", flush=True)
    tsv.write(f"summary\t{stats}\n")


if __name__ == "__main__":
    main()
