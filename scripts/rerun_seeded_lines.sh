#!/bin/bash
# Re-runs the listed seeded changes and replaces their lines in /verif/seeded/RESULTS.md.
#   scripts/rerun_seeded_lines.sh <seconds> <id> [<id> ...]
# (Same per-property rules as run_all_seeded.sh: meta.json's check_with, at least 40 s for C09.)
secs="$1"; shift
out=/verif/seeded/RESULTS.md
for id in "$@"; do
  d=/verif/seeded/$id
  [ -f "$d/patch.diff" ] || { echo "no such seed: $id"; continue; }
  props=$(python3 -c "import json;m=json.load(open('$d/meta.json'));print(' '.join(m.get('check_with',[m['property']])))")
  for pp in $props; do
    ss="$secs"; [ "$pp" = C09 ] && [ "$secs" -lt 40 ] && ss=40
    r=$(/verif/scripts/run_seeded.sh "$d" "$pp" "$ss" | head -1)
    n=$(echo "$r" | awk '{print $2}'); p=$(echo "$r" | sed 's/.*property=\([A-Z0-9]*\).*/\1/'); e=$(echo "$r" | sed 's/.*exit=\([^ ]*\).*/\1/'); c=$(echo "$r" | sed 's/.*caught=\([^ ]*\).*/\1/'); s=$(echo "$r" | sed 's/.*signature=//')
    line="| seeded/$n | $p | violation | $e | $c | \`$s\` |"
    echo "$line"
    python3 - "$out" "seeded/$n" "$p" "$line" <<'EOF'
import sys
path, name, prop, line = sys.argv[1:5]
rows = open(path).read().split("\n")
key = "| %s | %s |" % (name, prop)
done = False
for i, r in enumerate(rows):
    if r.startswith(key):
        rows[i] = line + "  <!-- re-run -->"
        done = True
if not done:
    rows.append(line)
open(path, "w").write("\n".join(rows))
EOF
  done
done
