#!/bin/bash
# Runs every seeded change and every own mutant / neutral patch against its property's quick check
# and writes /verif/seeded/RESULTS.md.  Usage: scripts/run_all_seeded.sh [seconds per check]
secs="${1:-20}"
out=/verif/seeded/RESULTS.md
{
echo "# Seeded changes and mutants vs. the registered checks"
echo
echo "Produced by scripts/run_all_seeded.sh ($secs s batch per check, 40 s for C09, VERIF_SEED=${VERIF_SEED:-1}); /repo HEAD $(git -C /repo log --format=%h -1)."
echo
echo "| change | property | expected | check exit | caught | first violation signature |"
echo "|---|---|---|---|---|---|"
for d in /verif/seeded/*/; do
  [ -f "$d/patch.diff" ] || continue
  obs=$(python3 -c "import json;m=json.load(open('$d/meta.json'));print('yes' if m.get('obsolete') else '')")
  if [ -n "$obs" ]; then
    echo "| seeded/$(basename $d) | $(python3 -c "import json;print(json.load(open('$d/meta.json'))['property'])") | obsolete | - | - | neutralised by a later genuine-defect fix, see meta.json |"
    continue
  fi
  props=$(python3 -c "import json;m=json.load(open('$d/meta.json'));print(' '.join(m.get('check_with',[m['property']])))")
  for pp in $props; do
  ss="$secs"; [ "$pp" = C09 ] && [ "$secs" -lt 40 ] && ss=40   # race builds explore two orders of magnitude fewer runs per second
  r=$(/verif/scripts/run_seeded.sh "$d" "$pp" "$ss" | head -1)
  n=$(echo "$r" | awk '{print $2}'); p=$(echo "$r" | sed 's/.*property=\([A-Z0-9]*\).*/\1/'); e=$(echo "$r" | sed 's/.*exit=\([^ ]*\).*/\1/'); c=$(echo "$r" | sed 's/.*caught=\([^ ]*\).*/\1/'); s=$(echo "$r" | sed 's/.*signature=//')
  echo "| seeded/$n | $p | violation | $e | $c | \`$s\` |"
  done
done
for f in /verif/mutants/*.diff; do
  n=$(basename "$f" .diff); p=$(echo "$n" | sed 's/^neutral-//' | cut -d- -f1 | tr a-z A-Z)
  exp=violation; case "$n" in neutral-*) exp="pass (neutral)";; esac
  ss="$secs"; [ "$p" = C09 ] && [ "$secs" -lt 40 ] && ss=40
  r=$(/verif/scripts/run_seeded.sh "$f" "$p" "$ss" | head -1)
  e=$(echo "$r" | sed 's/.*exit=\([^ ]*\).*/\1/'); c=$(echo "$r" | sed 's/.*caught=\([^ ]*\).*/\1/'); s=$(echo "$r" | sed 's/.*signature=//')
  echo "| mutants/$n | $p | $exp | $e | $c | \`$s\` |"
done
} > "$out.tmp"
mv "$out.tmp" "$out"
cat "$out"
