#!/bin/bash
# Runs the registered check of a seeded change's property against that change.
#
#   scripts/run_seeded.sh <seeded-dir-or-patch> [property] [seconds]
#
# The patch is applied to a scratch git worktree of /repo (never to /repo itself), the check is
# pointed at it with VERIF_REPO, and the worktree is removed afterwards.  Prints one summary line:
#   SEEDED <name> property=<id> exit=<code> caught=<yes|no> signature=<first signature>
set -u
src="$(realpath "$1")"
if [ -d "$src" ]; then
  patch="$src/patch.diff"
  name=$(basename "$src")
  prop="${2:-$(python3 -c "import json,sys;print(json.load(open('$src/meta.json'))['property'])" 2>/dev/null)}"
else
  patch="$src"
  name=$(basename "$src" .diff)
  prop="$2"
fi
secs="${3:-20}"
wt=$(mktemp -d /tmp/seedwt.XXXXXX)
rmdir "$wt"
git -C /repo worktree add -q -f "$wt" HEAD || exit 2
cleanup() { git -C /repo worktree remove --force "$wt" >/dev/null 2>&1; rm -rf "$wt"; }
trap cleanup EXIT
if ! git -C "$wt" apply "$patch"; then
  echo "SEEDED $name property=$prop exit=apply-failed caught=n/a"
  exit 2
fi
out=$(mktemp /tmp/seedout.XXXXXX)
export VERIF_EVIDENCE_DIR=$(mktemp -d /tmp/seedev.XXXXXX)
VERIF_REPLAY_DIR="$VERIF_EVIDENCE_DIR" VERIF_REPO="$wt" VERIF_SECONDS="$secs" /verif/bin/simcheck "$prop" quick >"$out" 2>&1
code=$?
sig=$(grep -m1 '^violation: ' "$out" | sed 's/^violation: //')
caught=no
[ "$code" = 1 ] && grep -q '^VIOLATION property=' "$out" && caught=yes
echo "SEEDED $name property=$prop exit=$code caught=$caught signature=$sig"
if [ "${VERBOSE:-0}" = 1 ] || [ "$code" = 2 ]; then
  grep -vE '^simcheck: minimised' "$out" | cut -c1-600 | tail -15
fi
rm -rf "$out" "$VERIF_EVIDENCE_DIR"
exit 0
