#!/bin/bash
# Confirms a seeded change independently, in a scratch worktree of /repo:
#   1. without the change: the demonstration passes
#   2. with the change: the repository builds and its complete test suite passes
#   3. with the change: the demonstration fails
# and, when all three hold, stores it as /verif/seeded/<id>/ (patch.diff, demo, notes, meta.json).
#
#   scripts/confirm_seed.sh <dir with patch.diff demo_test.go notes.md> <id> <property> [extra go test flags, e.g. -race]
set -u
src="$(realpath "$1")"; id="$2"; prop="$3"; flags="${4:-}"
export GOFLAGS=-mod=mod GOPROXY=off GOSUMDB=off GOTOOLCHAIN=local
demo=$(ls "$src"/demo*_test.go "$src"/demo*.go 2>/dev/null | head -1)
[ -f "$demo" ] || { echo "CONFIRM $id: no demo"; exit 2; }
pkg=$(grep -m1 '^package ' "$demo" | awk '{print $2}')
case "$pkg" in
  participle|participle_test) dest=. ;;
  lexer|lexer_test) dest=lexer ;;
  conformance|conformance_test) dest=lexer/internal/conformance ;;
  ebnf|ebnf_test) dest=ebnf ;;
  main) dest=cmd/participle ;;
  seeddemo|seeddemo_test) dest=lexer/internal/seeddemo; mkdirdest=1 ;;
  *) echo "CONFIRM $id: unknown package $pkg"; exit 2 ;;
esac
ex=$(grep -o -m1 '_examples/[a-z0-9_]*/' "$demo" | head -1)
[ "$pkg" = main ] && [ -n "$ex" ] && dest="${ex%/}"
grep -q -- '-race' "$demo" && case "$flags" in *-race*) ;; *) racehint=1 ;; esac
wt=$(mktemp -d /tmp/confwt.XXXXXX); rmdir "$wt"
git -C /repo worktree add -q -f "$wt" HEAD || exit 2
trap 'git -C /repo worktree remove --force "$wt" >/dev/null 2>&1; rm -rf "$wt"' EXIT
rundemo() { (cd "$wt/$dest" && timeout 600 go test -vet=off -count=1 $flags -run 'TestSeedDemo' . 2>&1); }
mkdir -p "$wt/$dest"; cp "$demo" "$wt/$dest/zz_seed_demo_test.go"
out1=$(rundemo); c1=$?
rm -f "$wt/$dest/zz_seed_demo_test.go"
git -C "$wt" apply "$src/patch.diff" || { echo "CONFIRM $id: patch does not apply"; exit 2; }
suite=$( (cd "$wt" && go build ./... && go test -vet=off -count=1 ./... 2>&1 && cd cmd/participle && go build ./... 2>&1) ); c2=$?
mkdir -p "$wt/$dest"; cp "$demo" "$wt/$dest/zz_seed_demo_test.go"
out3=$(rundemo); c3=$?
ok=no
if [ $c1 = 0 ] && [ $c2 = 0 ] && [ $c3 != 0 ]; then ok=yes; fi
echo "CONFIRM $id property=$prop demo_without_change=$([ $c1 = 0 ] && echo pass || echo FAIL) suite_with_change=$([ $c2 = 0 ] && echo pass || echo FAIL) demo_with_change=$([ $c3 != 0 ] && echo fails || echo PASSES) confirmed=$ok flags='$flags'"
if [ "$ok" != yes ]; then
  [ $c1 != 0 ] && echo "$out1" | tail -8
  [ $c2 != 0 ] && echo "$suite" | tail -8
  [ $c3 = 0 ] && echo "$out3" | tail -5
  [ "${racehint:-0}" = 1 ] && echo "hint: demo mentions -race; pass it as 4th argument"
  exit 1
fi
dst=/verif/seeded/$id
mkdir -p "$dst"
cp "$src/patch.diff" "$dst/patch.diff"
cp "$demo" "$dst/$(basename "$demo")"
[ -f "$src/notes.md" ] && cp "$src/notes.md" "$dst/notes.md"
python3 - "$dst" "$id" "$prop" "$dest" "$flags" <<'EOF'
import json,sys,os
dst,id_,prop,dest,flags=sys.argv[1:6]
meta={"id":id_,"property":prop,"breaks":prop,"demo_package_dir":dest,
 "demo_cmd":f"cp demo into {dest}/ of a worktree with patch.diff applied; go test -vet=off -count=1 {flags} -run TestSeedDemo ./{dest}/".replace("./.","."),
 "confirmed":{"demo_passes_without_change":True,"repo_builds_and_full_test_suite_passes_with_change":True,"demo_fails_with_change":True,
   "how":"scripts/confirm_seed.sh in a scratch git worktree of /repo (removed afterwards)"},
 "needs_to_manifest":"see notes.md","origin":"written by an independent sub-agent that saw only the property text and its own worktree"}
p=os.path.join(dst,"meta.json")
if os.path.exists(p):
    old=json.load(open(p)); old.update({k:v for k,v in meta.items() if k not in old or k in("confirmed",)}); meta=old
json.dump(meta,open(p,"w"),indent=1)
EOF
exit 0
